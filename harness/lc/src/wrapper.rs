//! C20, the wrapper around the comparison: `compare_layouts(expected, found)`.
//!
//! abi_stable's recursive layout comparison is out of reach (Kani ICE), so under Kani it is replaced by a STUB with
//! the same signature that returns an arbitrary verdict and records its arguments (`-Z stubbing`). What is decided:
//! for every combination of {missing, layout A, layout B} x {missing, layout A, layout B} x {comparison says
//! compatible, says incompatible}: a missing description yields Unknown (and the comparison is not consulted), two
//! present descriptions yield Valid exactly when the comparison accepts and Invalid otherwise, and the comparison is
//! asked with (expected, found) in that order (it is not symmetric).
//! Natively (replay) there is no stub: the real comparison runs on `u32` / `u64` layouts, whose verdict is known.

use abi_stable::type_layout::TypeLayout;
use abi_stable::StableAbi;
use cglue::trait_group::{compare_layouts, VerifyLayout};

pub static mut STUB_VERDICT: bool = false;
pub static mut STUB_CALLS: u32 = 0;
pub static mut STUB_ARGS: (usize, usize) = (0, 0);

#[cfg(kani)]
pub extern "C" fn stub_check(
    interface: &'static TypeLayout,
    implementation: &'static TypeLayout,
) -> abi_stable::std_types::RResult<(), abi_stable::std_types::RBoxError> {
    unsafe {
        STUB_CALLS += 1;
        STUB_ARGS = (interface as *const TypeLayout as usize, implementation as *const TypeLayout as usize);
        if STUB_VERDICT {
            abi_stable::std_types::ROk(())
        } else {
            abi_stable::std_types::RErr(abi_stable::std_types::RBoxError::new(core::fmt::Error))
        }
    }
}

fn layout(sel: u8) -> Option<&'static TypeLayout> {
    match sel {
        0 => None,
        1 => Some(<u32 as StableAbi>::LAYOUT),
        _ => Some(<u64 as StableAbi>::LAYOUT),
    }
}

nd::harnesses! {
    #[kani::stub(abi_stable::abi_stability::check_layout_compatibility, stub_check)]
    fn c20_compare_layouts_wrapper() {
        let ia: u8 = nd::any();
        let ib: u8 = nd::any();
        nd::assume(ia < 3 && ib < 3);
        let verdict: bool = nd::any();
        #[cfg(kani)]
        unsafe { STUB_VERDICT = verdict; STUB_CALLS = 0; }
        #[cfg(not(kani))]
        let verdict = { let _ = verdict; ia == ib };
        nd::cover!(ia == 0 && ib == 0, "both descriptions missing");
        nd::cover!(ia == 1 && ib == 2 && !verdict, "two descriptions, comparison rejects");
        nd::cover!(ia == 2 && ib == 2 && verdict, "two descriptions, comparison accepts");
        let r = compare_layouts(layout(ia), layout(ib));
        if ia == 0 || ib == 0 {
            assert!(r == VerifyLayout::Unknown, "a missing description yields Unknown");
            #[cfg(kani)]
            assert!(unsafe { STUB_CALLS } == 0);
        } else {
            assert!((r == VerifyLayout::Valid) == verdict, "Valid exactly when the comparison accepts");
            assert!(r == VerifyLayout::Valid || r == VerifyLayout::Invalid, "a rejected comparison is Invalid");
            #[cfg(kani)]
            unsafe {
                assert!(STUB_CALLS == 1);
                assert!(STUB_ARGS.0 == layout(ia).unwrap() as *const TypeLayout as usize, "expected layout is the first argument");
                assert!(STUB_ARGS.1 == layout(ib).unwrap() as *const TypeLayout as usize, "found layout is the second argument");
            }
        }
    }

    /// `VerifyLayout::check::<T>(found)` compares T's own description (as expected) with the given one.
    #[kani::stub(abi_stable::abi_stability::check_layout_compatibility, stub_check)]
    fn c20_check_uses_own_layout_as_expected() {
        let ib: u8 = nd::any();
        nd::assume(ib < 3);
        let verdict: bool = nd::any();
        #[cfg(kani)]
        unsafe { STUB_VERDICT = verdict; STUB_CALLS = 0; }
        #[cfg(not(kani))]
        let verdict = { let _ = verdict; ib == 1 };
        let r = VerifyLayout::check::<u32>(layout(ib));
        if ib == 0 {
            assert!(r == VerifyLayout::Unknown, "a missing description yields Unknown");
        } else {
            assert!((r == VerifyLayout::Valid) == verdict && (r == VerifyLayout::Invalid) == !verdict);
            #[cfg(kani)]
            unsafe {
                assert!(STUB_CALLS == 1 && STUB_ARGS.0 == <u32 as StableAbi>::LAYOUT as *const TypeLayout as usize);
                assert!(STUB_ARGS.1 == layout(ib).unwrap() as *const TypeLayout as usize);
            }
        }
    }

    /// Negative twin: claims that two missing descriptions are Valid.
    #[kani::stub(abi_stable::abi_stability::check_layout_compatibility, stub_check)]
    fn c20_wrapper_negative_twin() {
        assert!(compare_layouts(None, None) == VerifyLayout::Valid, "negative twin: expected to fail");
    }
}
