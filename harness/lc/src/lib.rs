//! C20 (narrowed to the verdict algebra). `compare_layouts` delegates to
//! `abi_stable::check_layout_compatibility`, on whose call graph the Kani compiler ICEs
//! (kani-compiler/src/intrinsics.rs:243), so neither "identical => Valid", "changed => never Valid"
//! nor "missing => Unknown" (same function) can be encoded. What is decided here is the last
//! sentence of the property: combining verdicts is Invalid-absorbing and Unknown-dominates-Valid,
//! and the strict / relaxed predicates agree with their definitions - for all 9 (27) verdict tuples.
#![allow(clippy::all)]

use cglue::trait_group::VerifyLayout;

fn pick(sel: u8) -> VerifyLayout {
    match sel {
        0 => VerifyLayout::Valid,
        1 => VerifyLayout::Invalid,
        _ => VerifyLayout::Unknown,
    }
}

/// reference: Invalid if either is Invalid, else Unknown if either is Unknown, else Valid
fn reference(a: u8, b: u8) -> u8 {
    if a == 1 || b == 1 {
        1
    } else if a == 2 || b == 2 {
        2
    } else {
        0
    }
}

nd::harnesses! {
    fn c20_and_all_pairs() {
        let a: u8 = nd::any();
        let b: u8 = nd::any();
        nd::assume(a < 3 && b < 3);
        nd::cover!(a == 1 && b == 2, "Invalid & Unknown");
        nd::cover!(a == 2 && b == 0, "Unknown & Valid");
        nd::cover!(a == 0 && b == 0, "Valid & Valid");
        let r = pick(a).and(pick(b));
        assert!(r == pick(reference(a, b)), "Invalid-absorbing, Unknown-dominates-Valid");
        // commutative
        assert!(pick(b).and(pick(a)) == r);
    }

    fn c20_and_triples_associative() {
        let a: u8 = nd::any();
        let b: u8 = nd::any();
        let c: u8 = nd::any();
        nd::assume(a < 3 && b < 3 && c < 3);
        let l = pick(a).and(pick(b)).and(pick(c));
        let r = pick(a).and(pick(b).and(pick(c)));
        assert!(l == r);
        assert!(l == pick(reference(reference(a, b), c)));
    }

    fn c20_predicates() {
        let a: u8 = nd::any();
        nd::assume(a < 3);
        let v = pick(a);
        assert!(v.is_valid_strict() == (a == 0));
        assert!(v.is_valid_relaxed() == (a == 0 || a == 2));
        // the C-visible discriminants (repr(u8), declaration order)
        assert!(pick(0) as u8 == 0 && pick(1) as u8 == 1 && pick(2) as u8 == 2);
    }

    /// Negative twin: claims Unknown & Invalid is Unknown.
    fn c20_negative_twin() {
        assert!(pick(2).and(pick(1)) == pick(2), "negative twin: expected to fail");
    }
}

pub mod wrapper;

pub const TABLES: &[&[(&str, fn())]] = &[TABLE, wrapper::TABLE];

