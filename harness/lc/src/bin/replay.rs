#[cfg(not(kani))]
fn main() {
    nd::replay_main(lc::TABLES);
}
#[cfg(kani)]
fn main() {}
