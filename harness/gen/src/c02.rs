//! C02 - arguments and results cross the boundary without loss or alteration.
//!
//! Per auto-converted shape a method whose implementor RECORDS what it received (for slices and
//! strings: address, length and every element; for options/results: variant and payload) and
//! RETURNS a value computed from symbolic state; the caller asserts recorded == sent and received ==
//! produced. For mutable slices / references the callee writes symbolic values and the caller
//! checks its own buffer.

use cglue::prelude::v1::*;
use cglue::*;
use core::cell::Cell;

#[repr(C)]
#[derive(Clone, Copy, PartialEq, Eq, Debug)]
pub struct Pt {
    pub a: u8,
    pub b: u32,
    pub c: u64,
}

#[derive(Clone, Copy, PartialEq, Eq, Debug)]
#[repr(C)]
pub struct Z0;

/// What the callee saw.
#[derive(Default)]
pub struct Rec {
    pub ptr: Cell<usize>,
    pub len: Cell<usize>,
    pub elems: Cell<[u64; 4]>,
    pub tag: Cell<u8>,
    pub val: Cell<u64>,
    pub val2: Cell<u64>,
}

pub struct Sh {
    pub rec: Rec,
    pub buf: [u8; 4],
    pub wide: [u64; 3],
    pub n: usize,
    pub k: u64,
    pub wr: [u8; 3],
}

#[cglue_trait]
pub trait Shapes {
    // arguments
    fn a_bytes(&self, s: &[u8]);
    fn a_wide(&self, s: &[u64]);
    fn a_zst(&self, s: &[Z0]);
    fn a_mut_bytes(&mut self, s: &mut [u8]);
    fn a_mut_wide(&mut self, s: &mut [u64]) -> usize;
    fn a_str(&self, s: &str);
    fn a_opt(&self, o: Option<u32>);
    fn a_opt_ref(&self, o: Option<&u64>);
    fn a_opt_slice(&self, o: Option<&[u8]>);
    fn a_opt_str(&self, o: Option<&str>);
    fn a_res(&self, r: Result<u32, u8>);
    fn a_into(&self, v: impl Into<u64>);
    fn a_struct(&self, p: Pt);
    fn a_mut_ref(&mut self, r: &mut u64);
    fn a_two_slices(&mut self, dst: &mut [u8], src: &[u8]) -> usize;
    fn a_callback(&self, cb: OpaqueCallback<u8>) -> usize;
    fn a_iter(&mut self, it: CIterator<u8>) -> usize;
    // results
    fn r_bytes(&self) -> &[u8];
    fn r_wide(&self) -> &[u64];
    fn r_mut_bytes(&mut self) -> &mut [u8];
    fn r_str(&self) -> &str;
    fn r_opt(&self) -> Option<u32>;
    fn r_opt_usize(&self) -> Option<usize>;
    fn r_opt_ref(&self) -> Option<&u64>;
    fn r_res(&self) -> Result<u64, u8>;
    #[int_result]
    fn r_int_res(&self) -> Result<u64, ()>;
    #[int_result]
    fn r_int_unit(&self) -> Result<(), ()>;
    fn r_struct(&self) -> Pt;
    fn r_extreme(&self, which: u8) -> i64;
}

impl Shapes for Sh {
    fn a_bytes(&self, s: &[u8]) {
        self.rec.ptr.set(s.as_ptr() as usize);
        self.rec.len.set(s.len());
        let mut e = [0u64; 4];
        let mut i = 0;
        while i < s.len() && i < 4 {
            e[i] = s[i] as u64;
            i += 1;
        }
        self.rec.elems.set(e);
    }
    fn a_wide(&self, s: &[u64]) {
        self.rec.ptr.set(s.as_ptr() as usize);
        self.rec.len.set(s.len());
        let mut e = [0u64; 4];
        let mut i = 0;
        while i < s.len() && i < 4 {
            e[i] = s[i];
            i += 1;
        }
        self.rec.elems.set(e);
    }
    fn a_zst(&self, s: &[Z0]) {
        self.rec.len.set(s.len());
    }
    fn a_mut_bytes(&mut self, s: &mut [u8]) {
        self.rec.ptr.set(s.as_ptr() as usize);
        self.rec.len.set(s.len());
        let mut i = 0;
        while i < s.len() && i < 3 {
            s[i] = self.wr[i];
            i += 1;
        }
    }
    fn a_mut_wide(&mut self, s: &mut [u64]) -> usize {
        self.rec.ptr.set(s.as_ptr() as usize);
        self.rec.len.set(s.len());
        let mut i = 0;
        while i < s.len() && i < 3 {
            s[i] ^= self.k;
            i += 1;
        }
        s.len()
    }
    fn a_str(&self, s: &str) {
        self.rec.ptr.set(s.as_ptr() as usize);
        self.rec.len.set(s.len());
        let b = s.as_bytes();
        let mut e = [0u64; 4];
        let mut i = 0;
        while i < b.len() && i < 4 {
            e[i] = b[i] as u64;
            i += 1;
        }
        self.rec.elems.set(e);
    }
    fn a_opt(&self, o: Option<u32>) {
        match o {
            Some(v) => {
                self.rec.tag.set(1);
                self.rec.val.set(v as u64);
            }
            None => self.rec.tag.set(0),
        }
    }
    fn a_opt_ref(&self, o: Option<&u64>) {
        match o {
            Some(v) => {
                self.rec.tag.set(1);
                self.rec.val.set(*v);
                self.rec.ptr.set(v as *const u64 as usize);
            }
            None => self.rec.tag.set(0),
        }
    }
    fn a_opt_slice(&self, o: Option<&[u8]>) {
        match o {
            Some(sl) => { self.rec.tag.set(1); self.rec.len.set(sl.len()); self.rec.ptr.set(sl.as_ptr() as usize); }
            None => { self.rec.tag.set(0); self.rec.len.set(usize::MAX); }
        }
    }
    fn a_opt_str(&self, o: Option<&str>) {
        match o {
            Some(st) => { self.rec.tag.set(1); self.rec.len.set(st.len()); self.rec.ptr.set(st.as_ptr() as usize); }
            None => { self.rec.tag.set(0); self.rec.len.set(usize::MAX); }
        }
    }
    fn a_res(&self, r: Result<u32, u8>) {
        match r {
            Ok(v) => {
                self.rec.tag.set(0);
                self.rec.val.set(v as u64);
            }
            Err(e) => {
                self.rec.tag.set(1);
                self.rec.val.set(e as u64);
            }
        }
    }
    fn a_into(&self, v: impl Into<u64>) {
        self.rec.val.set(v.into());
    }
    fn a_struct(&self, p: Pt) {
        self.rec.tag.set(p.a);
        self.rec.val.set(p.b as u64);
        self.rec.val2.set(p.c);
    }
    fn a_mut_ref(&mut self, r: &mut u64) {
        self.rec.val.set(*r);
        self.rec.ptr.set(r as *mut u64 as usize);
        *r = self.k;
    }
    fn a_two_slices(&mut self, dst: &mut [u8], src: &[u8]) -> usize {
        self.rec.ptr.set(dst.as_ptr() as usize);
        self.rec.len.set(src.len());
        let n = core::cmp::min(dst.len(), src.len());
        let mut i = 0;
        while i < n {
            dst[i] = !src[i];
            i += 1;
        }
        n
    }
    fn a_callback(&self, mut cb: OpaqueCallback<u8>) -> usize {
        let mut i = 0;
        let mut offered = 0;
        while i < self.n {
            offered += 1;
            if !cb.call(self.buf[i]) {
                break;
            }
            i += 1;
        }
        offered
    }
    fn a_iter(&mut self, it: CIterator<u8>) -> usize {
        let mut e = [0u64; 4];
        let mut cnt = 0;
        for x in it {
            if cnt < 4 {
                e[cnt] = x as u64;
            }
            cnt += 1;
        }
        self.rec.elems.set(e);
        cnt
    }
    fn r_bytes(&self) -> &[u8] {
        &self.buf[..self.n]
    }
    fn r_wide(&self) -> &[u64] {
        &self.wide[..if self.n > 3 { 3 } else { self.n }]
    }
    fn r_mut_bytes(&mut self) -> &mut [u8] {
        let n = self.n;
        &mut self.buf[..n]
    }
    fn r_str(&self) -> &str {
        unsafe { core::str::from_utf8_unchecked(&self.buf[..self.n]) }
    }
    fn r_opt(&self) -> Option<u32> {
        if self.k & 1 == 1 { Some((self.k >> 8) as u32) } else { None }
    }
    fn r_opt_usize(&self) -> Option<usize> {
        if self.k & 1 == 1 { Some((self.k >> 1) as usize | ((self.k as usize & 2) << 62)) } else { None }
    }
    fn r_opt_ref(&self) -> Option<&u64> {
        if self.k & 2 == 2 { Some(&self.k) } else { None }
    }
    fn r_res(&self) -> Result<u64, u8> {
        if self.k & 4 == 4 { Ok(self.k) } else { Err(self.k as u8) }
    }
    fn r_int_res(&self) -> Result<u64, ()> {
        if self.k & 8 == 8 { Ok(!self.k) } else { Err(()) }
    }
    fn r_int_unit(&self) -> Result<(), ()> {
        if self.k & 16 == 16 { Ok(()) } else { Err(()) }
    }
    fn r_struct(&self) -> Pt {
        Pt { a: self.k as u8, b: (self.k >> 8) as u32, c: !self.k }
    }
    fn r_extreme(&self, which: u8) -> i64 {
        match which {
            0 => i64::MIN,
            1 => i64::MAX,
            2 => -1,
            _ => self.k as i64,
        }
    }
}

/// Narrow optional payloads (their `Option` layout differs from `COption`'s) next to a `Self` return, and
/// mutable slices of zero-sized elements.
#[cglue_trait]
pub trait Narrow {
    fn with(&self, a: Option<u8>, b: Option<bool>, c: Option<u16>) -> Self;
    fn nval(&self) -> u64;
    fn plain(&self, a: Option<u8>, b: Option<bool>) -> u64;
    fn mzst(&mut self, s: &mut [Z0]) -> usize;
    fn rzst(&mut self) -> &mut [Z0];
}
#[derive(Clone)]
pub struct Nw {
    pub v: u64,
    pub z: [Z0; 3],
    pub n: usize,
}
fn enc3(a: Option<u8>, b: Option<bool>, c: Option<u16>) -> u64 {
    let x = match a { Some(v) => 0x100 | v as u64, None => 0 };
    let y = match b { Some(v) => 2 | v as u64, None => 0 };
    let z = match c { Some(v) => 0x10000 | v as u64, None => 0 };
    x | (y << 12) | (z << 20)
}
impl Narrow for Nw {
    fn with(&self, a: Option<u8>, b: Option<bool>, c: Option<u16>) -> Self {
        Nw { v: self.v ^ enc3(a, b, c), z: [Z0; 3], n: self.n }
    }
    fn nval(&self) -> u64 {
        self.v
    }
    fn plain(&self, a: Option<u8>, b: Option<bool>) -> u64 {
        self.v ^ enc3(a, b, None)
    }
    fn mzst(&mut self, s: &mut [Z0]) -> usize {
        s.len()
    }
    fn rzst(&mut self) -> &mut [Z0] {
        let n = self.n;
        &mut self.z[..n]
    }
}

/// Null-pointer-optimisable options are forwarded as they are (no COption wrapping): references were
/// covered above; here NonZero integers, bare function pointers and boxes.
#[cglue_trait]
pub trait Npo {
    fn a_nz(&self, o: Option<core::num::NonZeroU32>) -> u64;
    fn r_nz(&self) -> Option<core::num::NonZeroU32>;
    fn a_fnp(&self, f: Option<extern "C" fn(u32) -> u32>, x: u32) -> u64;
    fn a_box(&self, b: Option<Box<u64>>) -> u64;
    fn r_box(&self) -> Option<Box<u64>>;
}
extern "C" fn twice(x: u32) -> u32 {
    x.wrapping_add(x)
}
impl Npo for Sh {
    fn a_nz(&self, o: Option<core::num::NonZeroU32>) -> u64 {
        match o { Some(v) => v.get() as u64 ^ self.k, None => !self.k }
    }
    fn r_nz(&self) -> Option<core::num::NonZeroU32> {
        core::num::NonZeroU32::new(self.k as u32)
    }
    fn a_fnp(&self, f: Option<extern "C" fn(u32) -> u32>, x: u32) -> u64 {
        match f { Some(f) => f(x) as u64, None => 0xFFFF_FFFF_FFFF }
    }
    fn a_box(&self, b: Option<Box<u64>>) -> u64 {
        match b { Some(b) => *b ^ self.k, None => 1 }
    }
    fn r_box(&self) -> Option<Box<u64>> {
        if self.k & 1 == 1 { Some(Box::new(self.k)) } else { None }
    }
}

fn mk() -> Sh {
    let n = nd::range(0, 4);
    Sh { rec: Rec::default(), buf: nd::any(), wide: nd::any(), n, k: nd::any(), wr: nd::any() }
}

fn is_ascii(b: &[u8]) -> bool {
    let mut i = 0;
    let mut ok = true;
    while i < b.len() {
        ok &= b[i] < 0x80;
        i += 1;
    }
    ok
}

/// A source that is NOT fused: it follows a script of Some/None answers (an item may follow a None), then ends.
pub struct Script {
    pub plan: [Option<u8>; 5],
    pub calls: usize,
}
impl Script {
    pub fn nd() -> Script {
        let vals: [u8; 5] = nd::any();
        let some: [bool; 5] = nd::any();
        let mut plan = [None; 5];
        let mut i = 0;
        while i < 5 {
            if some[i] {
                plan[i] = Some(vals[i]);
            }
            i += 1;
        }
        Script { plan, calls: 0 }
    }
}
impl Iterator for Script {
    type Item = u8;
    fn next(&mut self) -> Option<u8> {
        let r = if self.calls < 5 { self.plan[self.calls] } else { None };
        self.calls += 1;
        r
    }
}

/// The callee keeps polling the iterator it was given and records every answer.
#[cglue_trait]
pub trait Poller {
    fn poll_n(&mut self, it: CIterator<u8>, n: usize) -> usize;
}
pub struct PollRec {
    pub seen: [Option<u8>; 6],
}
impl Poller for PollRec {
    fn poll_n(&mut self, mut it: CIterator<u8>, n: usize) -> usize {
        let mut i = 0;
        while i < n && i < 6 {
            self.seen[i] = it.next();
            i += 1;
        }
        i
    }
}

nd::harnesses! {
    /// Slice / string / zero-sized-element arguments: same address, length, elements.
    #[kani::unwind(7)]
    fn c02_args_slices() {
        let mut s = mk();
        let mut obj = trait_obj!(&mut s as Shapes);
        let which: u8 = nd::any();
        nd::assume(which < 5);
        let l = nd::range(0, 4);
        nd::cover!(l == 0, "empty slice");
        nd::cover!(l == 4, "full slice");
        match which {
            0 => {
                let data: [u8; 4] = nd::any();
                obj.a_bytes(&data[..l]);
                drop(obj);
                assert!(s.rec.ptr.get() == data[..l].as_ptr() as usize && s.rec.len.get() == l);
                let e = s.rec.elems.get();
                let mut i = 0;
                while i < l { assert!(e[i] == data[i] as u64); i += 1; }
            }
            1 => {
                let data: [u64; 4] = nd::any();
                obj.a_wide(&data[..l]);
                drop(obj);
                assert!(s.rec.ptr.get() == data[..l].as_ptr() as usize && s.rec.len.get() == l);
                let e = s.rec.elems.get();
                let mut i = 0;
                while i < l { assert!(e[i] == data[i]); i += 1; }
            }
            2 => {
                let z = [Z0; 4];
                obj.a_zst(&z[..l]);
                drop(obj);
                assert!(s.rec.len.get() == l);
            }
            3 => {
                // strings: symbolic ASCII plus a fixed multi-byte sample (validity is the caller's contract)
                let data: [u8; 4] = nd::any();
                nd::assume(is_ascii(&data));
                let st = unsafe { core::str::from_utf8_unchecked(&data[..l]) };
                obj.a_str(st);
                obj.a_str(st);
                drop(obj);
                assert!(s.rec.ptr.get() == st.as_ptr() as usize && s.rec.len.get() == l);
                let e = s.rec.elems.get();
                let mut i = 0;
                while i < l { assert!(e[i] == data[i] as u64); i += 1; }
            }
            _ => {
                let multi = "h\u{e9}\u{20ac}";
                let empty = "";
                obj.a_str(multi);
                drop(obj);
                assert!(s.rec.ptr.get() == multi.as_ptr() as usize && s.rec.len.get() == 6);
                let e = s.rec.elems.get();
                assert!(e[0] == b'h' as u64 && e[1] == 0xC3 && e[2] == 0xA9 && e[3] == 0xE2);
                let obj = trait_obj!(&mut s as Shapes);
                obj.a_str(empty);
                drop(obj);
                assert!(s.rec.len.get() == 0);
            }
        }
    }

    /// Mutable slice / mutable reference arguments: callee writes are visible to the caller, at
    /// the caller's own addresses.
    #[kani::unwind(7)]
    fn c02_args_mutable() {
        let mut s = mk();
        let wr = s.wr;
        let k = s.k;
        let which: u8 = nd::any();
        nd::assume(which < 4);
        let mut obj = trait_obj!(&mut s as Shapes);
        match which {
            3 => {
                // a mutable slice of 8-byte elements: same address, same ELEMENT count, writes land element-wise
                let orig: [u64; 3] = nd::any();
                let mut data = orig;
                let l = nd::range(0, 3);
                let base = data[..l].as_ptr() as usize;
                let r = obj.a_mut_wide(&mut data[..l]);
                drop(obj);
                assert!(r == l && s.rec.ptr.get() == base && s.rec.len.get() == l, "a mutable slice keeps its element count and address");
                let mut i = 0;
                while i < 3 {
                    if i < l { assert!(data[i] == orig[i] ^ k); } else { assert!(data[i] == orig[i]); }
                    i += 1;
                }
            }
            0 => {
                let orig: [u8; 4] = nd::any();
                let mut data = orig;
                let l = nd::range(0, 4);
                let base = data[..l].as_ptr() as usize;
                obj.a_mut_bytes(&mut data[..l]);
                drop(obj);
                assert!(s.rec.ptr.get() == base && s.rec.len.get() == l);
                let mut i = 0;
                while i < 4 {
                    if i < l && i < 3 { assert!(data[i] == wr[i]); } else { assert!(data[i] == orig[i]); }
                    i += 1;
                }
            }
            1 => {
                let x0: u64 = nd::any();
                let mut x = x0;
                let addr = &mut x as *mut u64 as usize;
                obj.a_mut_ref(&mut x);
                drop(obj);
                assert!(x == k && s.rec.val.get() == x0 && s.rec.ptr.get() == addr);
            }
            _ => {
                let src: [u8; 3] = nd::any();
                let ls = nd::range(0, 3);
                let ld = nd::range(0, 2);
                let mut dst = [0x55u8; 2];
                let r = obj.a_two_slices(&mut dst[..ld], &src[..ls]);
                let n = if ld < ls { ld } else { ls };
                assert!(r == n);
                let mut i = 0;
                while i < 2 {
                    if i < n { assert!(dst[i] == !src[i]); } else { assert!(dst[i] == 0x55); }
                    i += 1;
                }
            }
        }
    }

    /// Scalar-like shapes in argument position: Option (wrapped and null-pointer-optimised),
    /// Result, impl Into, by-value C struct.
    #[kani::unwind(7)]
    fn c02_args_values() {
        let mut s = mk();
        let which: u8 = nd::any();
        nd::assume(which < 5);
        let obj = trait_obj!(&mut s as Shapes);
        match which {
            0 => {
                let o: Option<u32> = if nd::any() { Some(nd::any()) } else { None };
                obj.a_opt(o);
                drop(obj);
                assert!((s.rec.tag.get() == 1) == o.is_some());
                if let Some(v) = o { assert!(s.rec.val.get() == v as u64); }
            }
            1 => {
                let x: u64 = nd::any();
                let some: bool = nd::any();
                obj.a_opt_ref(if some { Some(&x) } else { None });
                drop(obj);
                assert!((s.rec.tag.get() == 1) == some);
                if some { assert!(s.rec.val.get() == x && s.rec.ptr.get() == &x as *const u64 as usize); }
            }
            2 => {
                let r: Result<u32, u8> = if nd::any() { Ok(nd::any()) } else { Err(nd::any()) };
                obj.a_res(r);
                drop(obj);
                match r {
                    Ok(v) => assert!(s.rec.tag.get() == 0 && s.rec.val.get() == v as u64),
                    Err(e) => assert!(s.rec.tag.get() == 1 && s.rec.val.get() == e as u64),
                }
            }
            3 => {
                let v: u32 = nd::any();
                obj.a_into(v);
                drop(obj);
                assert!(s.rec.val.get() == v as u64);
                let obj = trait_obj!(&mut s as Shapes);
                let w: u64 = nd::any();
                obj.a_into(w);
                drop(obj);
                assert!(s.rec.val.get() == w);
            }
            _ => {
                let p = Pt { a: nd::any(), b: nd::any(), c: nd::any() };
                obj.a_struct(p);
                drop(obj);
                assert!(s.rec.tag.get() == p.a && s.rec.val.get() == p.b as u64 && s.rec.val2.get() == p.c);
            }
        }
    }

    /// Callback and iterator arguments: every item arrives once, in order; the stop verdict and
    /// the end of the iterator are honoured.
    #[kani::unwind(7)]
    fn c02_args_callback_iterator() {
        let mut s = mk();
        let (buf, n) = (s.buf, s.n);
        let mut obj = trait_obj!(&mut s as Shapes);
        if nd::any() {
            let stop_at = nd::range(0, 5);
            let mut got = [0u8; 4];
            let mut cnt = 0usize;
            let offered = {
                let mut f = |v: u8| { got[cnt] = v; cnt += 1; cnt - 1 != stop_at };
                obj.a_callback((&mut f).into())
            };
            let expect = if stop_at < n { stop_at + 1 } else { n };
            assert!(offered == expect && cnt == expect);
            let mut i = 0;
            while i < expect { assert!(got[i] == buf[i]); i += 1; }
        } else {
            let items: [u8; 3] = nd::any();
            let l = nd::range(0, 3);
            let mut it = items[..l].iter().copied();
            let cnt = obj.a_iter((&mut it).into());
            assert!(cnt == l);
            assert!(it.next().is_none());
            drop(obj);
            let e = s.rec.elems.get();
            let mut i = 0;
            while i < l { assert!(e[i] == items[i] as u64); i += 1; }
        }
    }

    /// An iterator argument arrives IDENTICAL, also when it is not fused: the callee's k-th poll gets the source's
    /// k-th answer (an item after a None is not lost) and the source is polled exactly as often as the callee polls.
    #[kani::unwind(8)]
    fn c02_iterator_argument_not_fused() {
        let mut src = Script::nd();
        let plan = src.plan;
        nd::cover!(plan[0].is_none() && plan[1].is_some(), "an item follows a None");
        let polls = nd::range(0, 6);
        let mut rec = PollRec { seen: [None; 6] };
        {
            let mut obj = trait_obj!(&mut rec as Poller);
            let done = obj.poll_n((&mut src).into(), polls);
            assert!(done == polls);
        }
        let mut j = 0;
        while j < polls {
            assert!(rec.seen[j] == if j < 5 { plan[j] } else { None }, "the callee sees what the source answers");
            j += 1;
        }
        assert!(src.calls == polls);
    }

    /// Non-ASCII strings in argument and in return position: same address, same BYTE length, same bytes. The contents
    /// are fixed multi-byte samples (so this stays decidable when a change makes the symbolic-content harnesses above
    /// expensive); which sample and which prefix of it is symbolic.
    #[kani::unwind(7)]
    fn c02_strings_multibyte() {
        let which: u8 = nd::any();
        nd::assume(which < 3);
        let mut s = Sh { rec: Rec::default(), buf: [0xC3, 0xA9, 0xC3, 0xBC], wide: [0; 3], n: if which == 0 { 4 } else { 2 }, k: 0, wr: [0; 3] };
        let bufp = s.buf.as_ptr() as usize;
        let n = s.n;
        let obj = trait_obj!(&mut s as Shapes);
        match which {
            0 | 1 => {
                let r = obj.r_str();
                assert!(r.len() == n && r.as_ptr() as usize == bufp, "a returned string keeps its byte length and address");
                let b = r.as_bytes();
                assert!(b[0] == 0xC3 && b[1] == 0xA9);
            }
            _ => {
                let multi = "h\u{e9}\u{20ac}";
                obj.a_str(multi);
                drop(obj);
                assert!(s.rec.ptr.get() == multi.as_ptr() as usize && s.rec.len.get() == 6, "a string argument keeps its byte length and address");
                let e = s.rec.elems.get();
                assert!(e[0] == b'h' as u64 && e[1] == 0xC3 && e[2] == 0xA9 && e[3] == 0xE2);
            }
        }
    }

    /// Optional slices and strings in argument position: `None`, `Some(empty)` and `Some(non-empty)` stay three
    /// different things (presence, length and address arrive unaltered).
    #[kani::unwind(7)]
    fn c02_optional_slice_and_str_arguments() {
        let mut s = mk();
        let data: [u8; 3] = nd::any();
        let l = nd::range(0, 3);
        let some: bool = nd::any();
        let as_str: bool = nd::any();
        nd::cover!(some && l == 0, "Some(empty)");
        nd::cover!(!some, "None");
        let obj = trait_obj!(&mut s as Shapes);
        if as_str {
            nd::assume(is_ascii(&data));
            let st = unsafe { core::str::from_utf8_unchecked(&data[..l]) };
            obj.a_opt_str(if some { Some(st) } else { None });
        } else {
            obj.a_opt_slice(if some { Some(&data[..l]) } else { None });
        }
        drop(obj);
        assert!(s.rec.tag.get() == if some { 1 } else { 0 }, "presence arrives unaltered");
        if some {
            assert!(s.rec.len.get() == l && s.rec.ptr.get() == data[..l].as_ptr() as usize);
        }
    }

    /// Every shape in return position.
    #[kani::unwind(7)]
    fn c02_returns() {
        let mut s = mk();
        nd::assume(is_ascii(&s.buf));
        let (buf, wide, n, k) = (s.buf, s.wide, s.n, s.k);
        let bufp = s.buf.as_ptr() as usize;
        let widep = s.wide.as_ptr() as usize;
        let kp = &s.k as *const u64 as usize;
        let which: u8 = nd::any();
        nd::assume(which < 10);
        nd::cover!(which == 0 && n == 0, "empty slice returned");
        nd::cover!(which == 4 && k & 1 == 0, "None returned");
        nd::cover!(which == 7 && k & 8 == 0, "Err through the integer code");
        let mut obj = trait_obj!(&mut s as Shapes);
        match which {
            0 => {
                let r = obj.r_bytes();
                assert!(r.len() == n && (n == 0 || r.as_ptr() as usize == bufp));
                let mut i = 0;
                while i < n { assert!(r[i] == buf[i]); i += 1; }
            }
            1 => {
                let r = obj.r_wide();
                let m = if n > 3 { 3 } else { n };
                assert!(r.len() == m && (m == 0 || r.as_ptr() as usize == widep));
                let mut i = 0;
                while i < m { assert!(r[i] == wide[i]); i += 1; }
            }
            2 => {
                let x: u8 = nd::any();
                {
                    let r = obj.r_mut_bytes();
                    assert!(r.len() == n);
                    if n > 0 { r[n - 1] = x; }
                }
                drop(obj);
                if n > 0 { assert!(s.buf[n - 1] == x, "caller writes through a returned mutable slice land in the callee"); }
            }
            3 => {
                let r = obj.r_str();
                assert!(r.len() == n && (n == 0 || r.as_ptr() as usize == bufp));
                let b = r.as_bytes();
                let mut i = 0;
                while i < n { assert!(b[i] == buf[i]); i += 1; }
            }
            4 => {
                assert!(obj.r_opt() == if k & 1 == 1 { Some((k >> 8) as u32) } else { None });
                // every value of the payload type is a legitimate Some(..), usize::MAX included
                let w = if k & 1 == 1 { Some((k >> 1) as usize | ((k as usize & 2) << 62)) } else { None };
                nd::cover!(w == Some(usize::MAX), "Some(usize::MAX)");
                assert!(obj.r_opt_usize() == w);
            }
            5 => {
                let r = obj.r_opt_ref();
                assert!(r.is_some() == (k & 2 == 2));
                if let Some(r) = r { assert!(*r == k && r as *const u64 as usize == kp); }
            }
            6 => assert!(obj.r_res() == if k & 4 == 4 { Ok(k) } else { Err(k as u8) }),
            7 => {
                assert!(obj.r_int_res() == if k & 8 == 8 { Ok(!k) } else { Err(()) });
                assert!(obj.r_int_unit() == if k & 16 == 16 { Ok(()) } else { Err(()) });
            }
            8 => assert!(obj.r_struct() == Pt { a: k as u8, b: (k >> 8) as u32, c: !k }),
            _ => {
                assert!(obj.r_extreme(0) == i64::MIN && obj.r_extreme(1) == i64::MAX && obj.r_extreme(2) == -1);
                assert!(obj.r_extreme(3) == k as i64);
            }
        }
    }

    /// The same shapes through a BOXED object (different receiver plumbing than the by-reference one).
    #[kani::unwind(7)]
    fn c02_boxed_object() {
        let s = mk();
        let (buf, n, k, wr) = (s.buf, s.n, s.k, s.wr);
        let mut obj = trait_obj!(s as Shapes);
        let r = obj.r_bytes();
        assert!(r.len() == n);
        let mut i = 0;
        while i < n { assert!(r[i] == buf[i]); i += 1; }
        let mut data: [u8; 3] = nd::any();
        obj.a_mut_bytes(&mut data);
        assert!(data[0] == wr[0] && data[1] == wr[1] && data[2] == wr[2]);
        let mut x: u64 = nd::any();
        obj.a_mut_ref(&mut x);
        assert!(x == k);
        assert!(obj.r_res() == if k & 4 == 4 { Ok(k) } else { Err(k as u8) });
        assert!(obj.r_int_res() == if k & 8 == 8 { Ok(!k) } else { Err(()) });
    }

    /// Narrow optional payloads (u8 / bool / u16) on a method returning `Self` and on an ordinary method;
    /// mutable slices of zero-sized elements as argument and result keep their length.
    #[kani::unwind(7)]
    fn c02_narrow_options_and_zst_mut_slices() {
        let v: u64 = nd::any();
        let n = nd::range(0, 3);
        let a: Option<u8> = if nd::any() { Some(nd::any()) } else { None };
        let b: Option<bool> = if nd::any() { Some(nd::any()) } else { None };
        let c: Option<u16> = if nd::any() { Some(nd::any()) } else { None };
        nd::cover!(a == Some(0), "Some(0)");
        nd::cover!(b == Some(false), "Some(false)");
        let direct = Nw { v, z: [Z0; 3], n };
        let mut obj = trait_obj!(direct.clone() as Narrow);
        let made = obj.with(a, b, c);
        assert!(made.nval() == direct.with(a, b, c).nval(), "optional arguments arrive unaltered on a Self-returning method");
        assert!(obj.plain(a, b) == direct.plain(a, b));
        let mut zs = [Z0; 3];
        let l = nd::range(0, 3);
        assert!(obj.mzst(&mut zs[..l]) == l, "a mutable slice of zero-sized elements keeps its length");
        assert!(obj.rzst().len() == n);
    }

    /// Null-pointer-optimised options (NonZero, fn pointer, Box) in argument and return position.
    #[kani::unwind(7)]
    fn c02_npo_options() {
        let s = mk();
        let k = s.k;
        let obj = trait_obj!(&s as Npo);
        let raw: u32 = nd::any();
        let nz = core::num::NonZeroU32::new(raw);
        nd::cover!(nz.is_none(), "None");
        nd::cover!(nz.is_some(), "Some");
        assert!(obj.a_nz(nz) == s.a_nz(nz));
        assert!(obj.r_nz() == core::num::NonZeroU32::new(k as u32));
        let x: u32 = nd::any();
        let some: bool = nd::any();
        assert!(obj.a_fnp(if some { Some(twice) } else { None }, x) == if some { x.wrapping_add(x) as u64 } else { 0xFFFF_FFFF_FFFF });
        let bv: u64 = nd::any();
        assert!(obj.a_box(if some { Some(Box::new(bv)) } else { None }) == if some { bv ^ k } else { 1 });
        let rb = obj.r_box();
        assert!(rb.as_deref().copied() == if k & 1 == 1 { Some(k) } else { None });
    }

    /// Negative twin: claims the callee sees one element fewer than was sent.
    #[kani::unwind(7)]
    fn c02_negative_twin() {
        let mut s = mk();
        let data: [u8; 3] = nd::any();
        let obj = trait_obj!(&mut s as Shapes);
        obj.a_bytes(&data);
        drop(obj);
        assert!(s.rec.len.get() == 2, "negative twin: expected to fail");
    }
}

