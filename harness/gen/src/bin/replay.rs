#[cfg(not(kani))]
fn main() {
    nd::replay_main(gen::TABLES);
}
#[cfg(kani)]
fn main() {}
