//! Core corpus: CGlue-compatible traits and groups whose implementors carry SYMBOLIC state and a
//! call log (the repository's own test implementors are zero-sized and stateless, so wrong
//! dispatch, lost updates and double calls are invisible there).

use cglue::prelude::v1::*;
use cglue::*;
use core::cell::Cell;
use core::pin::Pin;
use nd::Nd;

/// Implementor state. `calls`/`last`/`dig` are the call log: every method bumps `calls`, stores its
/// id in `last` and folds its arguments into `dig` (also the `&self` methods, through `Cell`).
#[derive(Clone, Debug, PartialEq, Eq)]
pub struct St {
    pub val: u64,
    pub calls: Cell<u32>,
    pub last: Cell<u8>,
    pub dig: Cell<u64>,
    /// drop-counted member: a second destruction of the implementor (or of a bitwise copy of it) fails
    /// inside the harness
    pub guard: nd::obs::Pay,
}

impl Nd for St {
    fn nd() -> St {
        St { val: nd::any(), calls: Cell::new(0), last: Cell::new(0), dig: Cell::new(nd::any()), guard: nd::obs::Pay::new(0) }
    }
}

impl St {
    #[inline]
    fn log(&self, id: u8, arg: u64) {
        self.calls.set(self.calls.get().wrapping_add(1));
        self.last.set(id);
        // no multiplications anywhere in the corpus: proving two identical multiplier circuits equal is
        // what stalls a bit-blasting back end; rotations are wiring and XOR/add are cheap
        self.dig.set(self.dig.get().rotate_left(5) ^ arg ^ ((id as u64) << 56));
    }
    /// everything observable about the instance, call log included
    pub fn snapshot(&self) -> (u64, u32, u8, u64) {
        (self.val, self.calls.get(), self.last.get(), self.dig.get())
    }
}

/// `&self`-only trait (usable through every container kind, including by-reference and CArcSome).
#[cglue_trait]
pub trait Reader {
    fn rd_get(&self) -> u64;
    fn rd_opt(&self, v: Option<u32>) -> Option<u64>;
    fn rd_sum(&self, data: &[u8]) -> u64;
    extern "C" fn rd_ext(&self, a: u32, b: u8) -> u64;
    fn rd_snap(&self) -> u64;
}

impl Reader for St {
    fn rd_get(&self) -> u64 {
        self.log(1, 0);
        self.val ^ 0x1111
    }
    fn rd_opt(&self, v: Option<u32>) -> Option<u64> {
        self.log(2, v.map(|x| x as u64 + 1).unwrap_or(0));
        v.map(|x| (x as u64) ^ self.val)
    }
    fn rd_sum(&self, data: &[u8]) -> u64 {
        let mut s = data.len() as u64;
        let mut i = 0;
        while i < data.len() {
            s = s.rotate_left(9) ^ (data[i] as u64);
            i += 1;
        }
        self.log(3, s);
        s ^ self.val
    }
    extern "C" fn rd_ext(&self, a: u32, b: u8) -> u64 {
        self.log(4, ((a as u64) << 8) | b as u64);
        (self.val << 1) ^ (a as u64) ^ ((b as u64) << 40)
    }
    fn rd_snap(&self) -> u64 {
        // not logged: used by the harness as the state probe
        self.val.rotate_left(3) ^ (self.calls.get() as u64) ^ ((self.last.get() as u64) << 32) ^ self.dig.get().rotate_left(17)
    }
}

/// Mixed-receiver trait.
#[cglue_trait]
pub trait Counter {
    fn get(&self) -> u64;
    fn add(&mut self, v: u64) -> u64;
    fn fill(&mut self, out: &mut [u8], src: &[u8]) -> usize;
    #[int_result]
    fn checked(&mut self, v: u64) -> Result<u64, ()>;
    fn swap_opt(&mut self, v: Option<u64>) -> Option<u64>;
    fn pinned(self: Pin<&mut Self>, v: u8) -> u64;
    fn pinned_ref(self: Pin<&Self>) -> u64;
    #[skip_func]
    fn skipped(&self) -> u64 {
        77
    }
    fn snap(&self) -> u64;
}

impl Counter for St {
    fn get(&self) -> u64 {
        self.log(11, 0);
        self.val
    }
    fn add(&mut self, v: u64) -> u64 {
        self.log(12, v);
        self.val = self.val.wrapping_add(v);
        self.val
    }
    fn fill(&mut self, out: &mut [u8], src: &[u8]) -> usize {
        let n = core::cmp::min(out.len(), src.len());
        let mut i = 0;
        while i < n {
            out[i] = src[i] ^ (self.val as u8);
            i += 1;
        }
        self.log(13, ((out.len() as u64) << 8) | src.len() as u64);
        self.val = self.val.wrapping_add(n as u64);
        n
    }
    fn checked(&mut self, v: u64) -> Result<u64, ()> {
        self.log(14, v);
        match self.val.checked_add(v) {
            Some(x) => {
                self.val = x;
                Ok(x)
            }
            None => Err(()),
        }
    }
    fn swap_opt(&mut self, v: Option<u64>) -> Option<u64> {
        self.log(15, v.unwrap_or(5));
        match v {
            Some(x) => {
                let old = self.val;
                self.val = x;
                Some(old)
            }
            None => None,
        }
    }
    fn pinned(self: Pin<&mut Self>, v: u8) -> u64 {
        let me = unsafe { self.get_unchecked_mut() };
        me.log(16, v as u64);
        me.val ^= (v as u64) << 3;
        me.val
    }
    fn pinned_ref(self: Pin<&Self>) -> u64 {
        self.log(17, 0);
        !self.val
    }
    fn snap(&self) -> u64 {
        self.val.rotate_left(5) ^ (self.calls.get() as u64) ^ ((self.last.get() as u64) << 32) ^ self.dig.get().rotate_left(23)
    }
}

/// Trait with a by-value (consuming) method next to borrowed ones: boxed containers only.
#[cglue_trait]
pub trait Consume {
    fn c_peek(&self) -> u64;
    fn c_bump(&mut self, v: u64) -> u64;
    fn finish(self) -> u64;
}
impl Consume for St {
    fn c_peek(&self) -> u64 {
        self.log(51, 0);
        self.val ^ 0xABCD
    }
    fn c_bump(&mut self, v: u64) -> u64 {
        self.log(52, v);
        self.val = self.val.rotate_left(3).wrapping_add(v);
        self.val
    }
    fn finish(self) -> u64 {
        self.log(19, 0);
        self.val ^ 0x55 ^ self.dig.get() ^ ((self.calls.get() as u64) << 48)
    }
}

#[cglue_trait]
pub trait Other {
    fn other(&self) -> u64;
    fn other_mut(&mut self, v: u64) -> u64;
}

impl Other for St {
    fn other(&self) -> u64 {
        self.log(21, 0);
        self.val ^ 0x0707_0707
    }
    fn other_mut(&mut self, v: u64) -> u64 {
        self.log(22, v);
        self.val = self.val.rotate_left(7) ^ v;
        self.val
    }
}

cglue_trait_group!(Grp, Counter, { Reader, Other });
cglue_impl_group!(St, Grp, { Reader, Other });

/// The same state type behind a wrapper that enables only `Other`.
#[derive(Clone, Debug, PartialEq, Eq)]
pub struct StO(pub St);
impl Counter for StO {
    fn get(&self) -> u64 { self.0.get() }
    fn add(&mut self, v: u64) -> u64 { self.0.add(v) }
    fn fill(&mut self, out: &mut [u8], src: &[u8]) -> usize { self.0.fill(out, src) }
    fn checked(&mut self, v: u64) -> Result<u64, ()> { self.0.checked(v) }
    fn swap_opt(&mut self, v: Option<u64>) -> Option<u64> { self.0.swap_opt(v) }
    fn pinned(self: Pin<&mut Self>, v: u8) -> u64 { unsafe { self.map_unchecked_mut(|s| &mut s.0) }.pinned(v) }
    fn pinned_ref(self: Pin<&Self>) -> u64 { unsafe { self.map_unchecked(|s| &s.0) }.pinned_ref() }
    fn snap(&self) -> u64 { self.0.snap() }
}
impl Other for StO {
    fn other(&self) -> u64 { self.0.other() }
    fn other_mut(&mut self, v: u64) -> u64 { self.0.other_mut(v) }
}
cglue_impl_group!(StO, Grp, { Other });

/// Group whose mandatory trait has a consuming method.
cglue_trait_group!(GrpC, Consume, { Reader, Other });
cglue_impl_group!(St, GrpC, { Reader, Other });

/// Generic trait and a trait with a lifetime parameter.
#[cglue_trait]
pub trait GenT<T: Copy + 'static> {
    fn g_put(&mut self, t: T) -> T;
    fn g_peek(&self, t: &T) -> T;
}
impl GenT<u16> for St {
    fn g_put(&mut self, t: u16) -> u16 {
        self.log(31, t as u64);
        let r = t.wrapping_add(self.val as u16);
        self.val ^= t as u64;
        r
    }
    fn g_peek(&self, t: &u16) -> u16 {
        self.log(32, *t as u64);
        *t ^ (self.val as u16)
    }
}

#[cglue_trait]
pub trait LifeT<'a, T: Eq + 'a> {
    fn l_ref(&self) -> &T;
    fn l_cmp(&self, v: &T) -> bool;
}
impl<'a> LifeT<'a, u64> for St {
    fn l_ref(&self) -> &u64 {
        self.log(41, 0);
        &self.val
    }
    fn l_cmp(&self, v: &u64) -> bool {
        self.log(42, *v);
        *v == self.val
    }
}
