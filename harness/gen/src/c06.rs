//! C06 - every owned value is destroyed exactly once, with nothing leaked.
//!
//! Payloads are drop-counted (`nd::obs::Pay`: a second drop, or a drop of memory that never held a
//! value, fails inside the harness). A SYMBOLIC path selector chooses the lifecycle; at the end
//! `live == 0` and `drops == made`. These harnesses run with CBMC's memory-leak check, and Kani's
//! deallocation model asserts that every free passes the size the block was allocated with.

use crate::corpus2::*;
use cglue::boxed::{CBox, CSliceBox};
use cglue::prelude::v1::*;
use cglue::trait_group::{IntoInner, Opaquable};
use cglue::*;
use nd::obs::*;

fn balanced() {
    assert!(live() == 0, "nothing left alive");
    assert!(drops() == made(), "every value dropped exactly once");
}

cglue_trait_group!(MGrp, Maker, { BorrowRef });
cglue_impl_group!(P, MGrp, { BorrowRef });
/// same payload, optional trait NOT enabled
pub struct P2(pub P);
impl Maker for P2 {
    type Own = L;
    type OwnG = L;
    fn peek(&self) -> u32 { self.0.peek() }
    fn make(&self) -> L { self.0.make() }
    fn make_group(&self) -> L { self.0.make_group() }
    fn into_leaf(self) -> L { self.0.into_leaf() }
    fn finish(self) -> u32 { self.0.finish() }
}
cglue_impl_group!(P2, MGrp, {});

cglue_trait_group!(BGrp, BorrowRef, { BorrowMut });
cglue_impl_group!(P, BGrp, { BorrowMut });

/// zero-sized payload WITH a destructor (no allocation behind the box, but the value still has to be dropped)
pub struct Zd;
static mut ZD_DROPS: u32 = 0;
impl Drop for Zd {
    fn drop(&mut self) {
        unsafe { ZD_DROPS += 1 };
    }
}
impl LeafExtra for Zd {
    fn extra(&self) -> u32 {
        17
    }
}

nd::harnesses! {
    /// Zero-sized payloads are dropped exactly once too (CBox, boxed object, opaque form, into_inner).
    #[kani::unwind(4)]
    fn c06_zero_sized_payload_with_destructor() {
        assert!(core::mem::size_of::<Zd>() == 0);
        unsafe { ZD_DROPS = 0 };
        let path: u8 = nd::any();
        nd::assume(path < 4);
        match path {
            0 => drop(CBox::from(Zd)),
            1 => drop(CBox::from(Zd).into_opaque()),
            2 => {
                let obj = trait_obj!(Zd as LeafExtra);
                assert!(obj.extra() == 17);
                unsafe { assert!(ZD_DROPS == 0) };
            }
            _ => {
                let z: Zd = unsafe { CBox::from(Zd).into_inner() };
                unsafe { assert!(ZD_DROPS == 0) };
                drop(z);
            }
        }
        unsafe { assert!(ZD_DROPS == 1, "a zero-sized payload is dropped exactly once") };
    }

    /// Boxed single-trait object: drop, move, consuming calls, owned children in both drop orders.
    #[kani::unwind(4)]
    fn c06_object_paths() {
        reset();
        let v: u32 = nd::any();
        let path: u8 = nd::any();
        nd::assume(path < 7);
        nd::cover!(path == 2, "consumed by a by-value method");
        nd::cover!(path == 3, "owned child outlives the parent");
        nd::cover!(path == 5, "by-value method returning a wrapped object");
        {
            let obj = trait_obj!(P::new(v) as Maker);
            assert!(live() == 2 && drops() == 0);
            assert!(obj.peek() == v);
            match path {
                0 => drop(obj),
                1 => {
                    let o2 = obj;
                    assert!(o2.peek() == v && drops() == 0);
                }
                2 => {
                    assert!(obj.finish() == v ^ 4);
                    assert!(live() == 0 && drops() == 2);
                }
                3 => {
                    let c = obj.make();
                    assert!(live() == 3);
                    drop(obj);
                    assert!(live() == 1 && drops() == 2);
                    assert!(c.val() == v ^ 1);
                }
                4 => {
                    let g = obj.make_group();
                    assert!(live() == 3 && g.val() == v ^ 2);
                    let hit = cast!(g impl LeafExtra);
                    assert!(hit.is_some());
                    let hit = hit.unwrap();
                    assert!(hit.extra() == !(v ^ 2));
                    let back = LeafGrpBox::from(hit);
                    assert!(back.val() == v ^ 2 && live() == 3 && drops() == 0);
                    drop(back);
                    assert!(live() == 2);
                }
                5 => {
                    let c = obj.into_leaf();
                    assert!(live() == 1 && drops() == 2, "the consumed value is gone, the returned one lives");
                    assert!(c.val() == v ^ 3);
                }
                _ => {
                    let mut c = obj.make();
                    assert!(c.set(9) == v ^ 1 && c.val() == 9);
                    drop(c);
                    assert!(live() == 2 && drops() == 1);
                }
            }
        }
        balanced();
    }

    /// Boxed group: check / as_ref / as_mut / cast (hit and miss - enabled set symbolic through two
    /// implementing types) / cast back / into; a failed cast drops the moved container once.
    #[kani::unwind(4)]
    fn c06_group_paths() {
        reset();
        let v: u32 = nd::any();
        let enabled: bool = nd::any();
        let path: u8 = nd::any();
        nd::assume(path < 5);
        nd::cover!(!enabled && path == 1, "failed cast");
        nd::cover!(enabled && path == 2, "cast and cast back");
        {
            let mut grp: MGrpBox = if enabled { group_obj!(CBox::from(P::new(v)) as MGrp) } else { group_obj!(CBox::from(P2(P::new(v))) as MGrp) };
            assert!(live() == 2 && drops() == 0);
            assert!(grp.check_impl_borrowref() == enabled);
            match path {
                0 => {
                    assert!(as_ref!(grp impl BorrowRef).is_some() == enabled);
                    assert!(as_mut!(grp impl BorrowRef).is_some() == enabled);
                    assert!(live() == 2 && drops() == 0);
                }
                1 => {
                    let c = cast!(grp impl BorrowRef);
                    assert!(c.is_some() == enabled);
                    if c.is_none() {
                        assert!(live() == 0 && drops() == 2, "a failed cast drops what it consumed, once");
                    } else {
                        assert!(live() == 2 && drops() == 0);
                    }
                }
                2 => {
                    if let Some(c) = cast!(grp impl BorrowRef) {
                        assert!(c.b_peek() == v);
                        let back = c.upcast();
                        assert!(back.peek() == v && live() == 2 && drops() == 0);
                        assert!(back.finish() == v ^ 4);
                    }
                }
                3 => {
                    let c = into!(grp impl BorrowRef);
                    assert!(c.is_some() == enabled);
                    if let Some(c) = c {
                        assert!(c.peek() == v && live() == 2);
                        let leaf = c.into_leaf();
                        assert!(live() == 1);
                        drop(leaf);
                    }
                }
                _ => {
                    let child = grp.make_group();
                    drop(grp);
                    assert!(live() == 1 && child.val() == v ^ 2);
                }
            }
        }
        balanced();
    }

    /// `Self`-returning method, the Clone extension (object and group), clones dropped in either order.
    #[kani::unwind(4)]
    fn c06_clone_and_self_return() {
        reset();
        let v: u32 = nd::any();
        let order: bool = nd::any();
        let which: u8 = nd::any();
        nd::assume(which < 3);
        {
            match which {
                0 => {
                    let obj = trait_obj!(D(Pay::new(v)) as Dup);
                    let d2 = obj.dup();
                    assert!(live() == 2 && d2.d_val() == v ^ 0x10);
                    if order { drop(obj); assert!(d2.d_val() == v ^ 0x10); } else { drop(d2); assert!(obj.d_val() == v); }
                    assert!(live() == 1 && drops() == 1);
                }
                1 => {
                    let obj = trait_obj!(D(Pay::new(v)) as Clone);
                    let c = obj.clone();
                    assert!(live() == 2 && drops() == 0);
                    if order { drop(obj); } else { drop(c); }
                    assert!(live() == 1 && drops() == 1);
                }
                _ => {
                    let grp = group_obj!(D(Pay::new(v)) as DupGrp);
                    let cl = as_ref!(grp impl Clone).unwrap();
                    let c2 = cl.clone();
                    assert!(live() == 2 && c2.d_val() == v);
                    if order { drop(grp); assert!(c2.d_val() == v); } else { drop(c2); assert!(grp.d_val() == v); }
                    assert!(live() == 1);
                }
            }
        }
        balanced();
    }

    /// By-reference objects (and objects wrapped around borrowed returns) never drop or free what
    /// they borrow.
    #[kani::unwind(4)]
    fn c06_borrowing_objects_do_not_drop() {
        reset();
        let v: u32 = nd::any();
        let path: u8 = nd::any();
        nd::assume(path < 4);
        let mut p = P::new(v);
        {
            match path {
                0 => {
                    let obj = trait_obj!(&p as BorrowRef);
                    assert!(obj.b_peek() == v);
                    let l = obj.borrow_leaf();
                    assert!(l.ro_val() == v ^ 0xFF);
                }
                1 => {
                    let mut obj = trait_obj!(&mut p as BorrowMut);
                    let l = obj.borrow_leaf_mut();
                    assert!(l.set(5) == v ^ 0xFF);
                    assert!(l.val() == 5);
                }
                2 => {
                    let obj = trait_obj!(&mut p as BorrowRef);
                    assert!(obj.borrow_leaf().ro_val() == v ^ 0xFF);
                }
                _ => {
                    let grp = group_obj!(&mut p as BGrp);
                    assert!(grp.b_peek() == v);
                    let mut c = cast!(grp impl BorrowMut).unwrap();
                    assert!(c.b_peek() == v);
                    assert!(c.borrow_leaf_mut().set(2) == v ^ 0xFF);
                }
            }
            assert!(drops() == 0 && live() == 2, "borrowed payloads untouched");
        }
        assert!(drops() == 0 && live() == 2);
        drop(p);
        balanced();
    }

    /// Boxed object around a borrowed return: the parent still owns its leaf and drops it once.
    #[kani::unwind(4)]
    fn c06_boxed_parent_borrowed_child() {
        reset();
        let v: u32 = nd::any();
        {
            let obj = trait_obj!(P::new(v) as BorrowRef);
            {
                let l = obj.borrow_leaf();
                assert!(l.ro_val() == v ^ 0xFF);
            }
            assert!(live() == 2 && drops() == 0);
            drop(obj);
            assert!(live() == 0 && drops() == 2);
            let mut objm = trait_obj!(P::new(v) as BorrowMut);
            {
                let l = objm.borrow_leaf_mut();
                assert!(l.set(1) == v ^ 0xFF);
            }
            assert!(live() == 2 && drops() == 2);
        }
        balanced();
    }

    /// CBox: every constructor, opaque conversion, into_inner (value returned once, box freed).
    #[kani::unwind(64)]
    fn c06_cbox_paths() {
        reset();
        let v: u32 = nd::any();
        let path: u8 = nd::any();
        nd::assume(path < 4);
        {
            let b: CBox<Pay> = if nd::any() { CBox::from(Pay::new(v)) } else { CBox::from(Box::new(Pay::new(v))) };
            assert!(live() == 1 && b.val == v);
            match path {
                0 => drop(b),
                1 => {
                    let o = b.into_opaque();
                    assert!(drops() == 0);
                    // converting an already opaque value again is the identity: nothing is destroyed by it
                    let o = if nd::any() { o.into_opaque() } else { o };
                    assert!(drops() == 0 && live() == 1);
                    drop(o);
                }
                2 => {
                    let inner: Pay = unsafe { b.into_inner() };
                    assert!(live() == 1 && drops() == 0 && inner.val == v && inner.is_live());
                }
                _ => {
                    let mut b = b;
                    b.val = !v;
                    let b2 = b;
                    assert!(b2.val == !v);
                }
            }
        }
        balanced();
    }

    /// CSliceBox for Box<[T]> of symbolic length 0..=3.
    #[kani::unwind(6)]
    fn c06_cslicebox() {
        reset();
        let n = nd::range(0, 3);
        nd::cover!(n == 0, "empty boxed slice");
        nd::cover!(n == 3, "three elements");
        let opaque: bool = nd::any();
        {
            let mut v: Vec<Pay> = Vec::with_capacity(3);
            let mut i = 0;
            while i < n {
                v.push(Pay::new(i as u32));
                i += 1;
            }
            let sb: CSliceBox<Pay> = CSliceBox::from(v.into_boxed_slice());
            assert!(sb.len() == n && live() == n as i32 && drops() == 0);
            let mut i = 0;
            while i < n {
                assert!(sb[i].val == i as u32);
                i += 1;
            }
            if opaque {
                let o = sb.into_opaque();
                assert!(drops() == 0);
                drop(o);
            }
        }
        balanced();
    }

    /// CSliceBox of plain data (no drop glue): the storage is still released, exactly once (decided by the leak check
    /// of this group and by the allocator model's double-free check), empty and non-empty, typed and opaque.
    #[kani::unwind(6)]
    fn c06_cslicebox_plain_data() {
        let n = nd::range(0, 3);
        nd::cover!(n == 0, "empty boxed slice");
        nd::cover!(n == 3, "three elements");
        let opaque: bool = nd::any();
        let wide: bool = nd::any();
        if wide {
            let mut v: Vec<u64> = Vec::with_capacity(3);
            let mut i = 0;
            while i < n { v.push(i as u64 ^ 0xABCD); i += 1; }
            let sb: CSliceBox<u64> = CSliceBox::from(v.into_boxed_slice());
            assert!(sb.len() == n && (n == 0 || sb[n - 1] == (n as u64 - 1) ^ 0xABCD));
            if opaque { drop(sb.into_opaque()); }
        } else {
            let mut v: Vec<(u8, u8)> = Vec::with_capacity(3);
            let mut i = 0;
            while i < n { v.push((i as u8, 7)); i += 1; }
            let sb: CSliceBox<(u8, u8)> = CSliceBox::from(v.into_boxed_slice());
            assert!(sb.len() == n);
            if opaque { drop(sb.into_opaque()); }
        }
    }

    /// A payload of more than 1 KiB (boxed directly, through `trait_obj!`, opaque or not) is destroyed exactly once.
    #[kani::unwind(4)]
    fn c06_large_payload() {
        reset();
        let v: u32 = nd::any();
        let path: u8 = nd::any();
        nd::assume(path < 3);
        {
            let big = crate::corpus3::BigPay { pad: [0; 1200], pay: Pay::new(v) };
            match path {
                0 => { let b = CBox::from(big); assert!(b.pay.val == v && live() == 1); drop(b); }
                1 => { let b = CBox::from(big).into_opaque(); assert!(drops() == 0); drop(b); }
                _ => { let o = trait_obj!(big as LeafRO); assert!(o.ro_val() == v && live() == 1); drop(o); }
            }
            assert!(live() == 0 && drops() == 1, "destroyed exactly once");
        }
        balanced();
    }

    /// First (and second) call of a method returning a lifetime-bound wrapped `&mut` value on an object whose context has
    /// a destructor: nothing that was never created is destroyed (the temporary slot starts uninitialised).
    #[kani::unwind(4)]
    fn c06_lifetime_bound_mut_return_first_call() {
        reset();
        ctx_reset();
        let v: u32 = nd::any();
        let base = Ctx::new();
        {
            let mut obj = trait_obj!((P::new(v), base.clone()) as crate::corpus3::LtMut);
            assert!(ctx_live() == 2);
            use crate::corpus3::LtMut;
            let r = obj.lt_leaf();
            let _ = r.val();
            assert!(ctx_live() >= 2, "nothing was released by obtaining the borrowed child");
        }
        drop(base);
        assert!(live() == 0 && drops() == made(), "every payload destroyed exactly once");
    }

    /// KNOWN FINDING scenario (same root cause as C07's): a method returning a borrowed wrapped object on an object whose
    /// context is an owning handle clones the handle into temporary storage that is never dropped - the allocation
    /// behind the context is never released ("nothing is leaked" fails for the context's allocation).
    #[kani::unwind(4)]
    fn c06_kf_borrowed_child_context_clone_never_released() {
        reset();
        let v: u32 = nd::any();
        let base = std::sync::Arc::new(Pay::new(v));
        {
            let obj = trait_obj!((P::new(v), CArc::<Pay>::from(base.clone())) as BorrowRef);
            {
                let l = obj.borrow_leaf();
                let _ = l.ro_val();
            }
            drop(obj);
        }
        assert!(std::sync::Arc::strong_count(&base) == 1, "borrowed child: the context clone held by the temporary wrapper is released");
        drop(base);
        balanced();
    }

    /// Negative twin: claims a consuming call leaves the value alive.
    #[kani::unwind(4)]
    fn c06_negative_twin() {
        reset();
        let obj = trait_obj!(P::new(1) as Maker);
        let _ = obj.finish();
        assert!(live() == 2, "negative twin: expected to fail");
    }
}
