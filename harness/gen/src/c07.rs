//! C07 - the context lives as long as any derived object, and no longer.
//!
//! The context is the counted `nd::obs::Ctx` (clone +1, drop -1); the harness keeps one observer
//! handle, so `ctx_live() == 1 + number of live objects holding the context` must hold after every
//! step and `ctx_live() == 1` at the end. For by-value calls the implementor records the count it
//! sees while its body runs and while `self` is dropped inside the callee: both must be above the
//! floor (the observer), i.e. the caller-side clone is still alive.
//! The borrowed-child scenarios are a KNOWN FINDING and live in their own harnesses.

use crate::corpus::{Consume, ConsumeCtxBox, ConsumeRetTmp, GrpC, GrpCBase, Reader};
use crate::corpus2::*;
use cglue::trait_group::{c_void, CGlueObjContainer};
use cglue::prelude::v1::*;
use cglue::*;
use nd::obs::*;

// ---- the CALLER-side glue of a by-value call, isolated: the object gets a foreign vtable whose
// `finish` entry plays the callee (it owns the container it receives by value and releases its
// context reference), so what is left alive after that release is what the caller holds.
type RealCont = CGlueObjContainer<CBox<'static, c_void>, Ctx, ConsumeRetTmp<Ctx>>;
#[repr(C)]
struct ContV {
    inst: *mut c_void,
    drop_fn: Option<unsafe extern "C" fn(*mut c_void)>,
    ctx: Ctx,
}
#[repr(C)]
struct MockVt {
    c_peek: extern "C" fn(&RealCont) -> u64,
    c_bump: extern "C" fn(&mut RealCont, u64) -> u64,
    finish: extern "C" fn(RealCont) -> u64,
}
#[repr(C)]
struct ObjV {
    vtbl: *const MockVt,
    cont: ContV,
}
static mut M_ENTRY_LIVE: i32 = -1;
static mut M_AFTER_RELEASE_LIVE: i32 = -1;
static mut M_CALLS: u32 = 0;
static mut M_INST_DROPS: u32 = 0;
static mut M_RET: u64 = 0;
extern "C" fn mock_peek(_c: &RealCont) -> u64 {
    5
}
extern "C" fn mock_bump(_c: &mut RealCont, v: u64) -> u64 {
    v
}
unsafe extern "C" fn mock_inst_drop(_p: *mut c_void) {
    M_INST_DROPS += 1;
}
extern "C" fn mock_finish(cont: RealCont) -> u64 {
    unsafe {
        M_CALLS += 1;
        M_ENTRY_LIVE = ctx_live();
        assert!(core::mem::size_of::<RealCont>() == core::mem::size_of::<ContV>());
        let v: ContV = core::mem::transmute(cont);
        let ContV { inst, drop_fn, ctx } = v;
        drop(ctx); // the callee releases the context reference it was given
        M_AFTER_RELEASE_LIVE = ctx_live();
        (drop_fn.unwrap())(inst);
        M_RET
    }
}
static MOCK_VT: MockVt = MockVt { c_peek: mock_peek, c_bump: mock_bump, finish: mock_finish };

#[repr(C, align(32))]
pub struct Big32(pub Pay);

macro_rules! c07_tree {
    ($v:expr, $ctx:expr, $count:expr) => {{
        let v = $v;
        let obj = trait_obj!((P::new(v), $ctx) as Maker);
        assert!($count == 2, "building the context handle neither takes nor releases a reference");
        let c1 = obj.make();
        let c2 = obj.make_group();
        assert!($count == 4, "every derived object holds its own clone of the context");
        let ending: u8 = nd::any();
        nd::assume(ending < 3);
        let mut tail = None;
        match ending {
            0 => drop(obj),
            1 => { assert!(obj.finish() == v ^ 4); }
            _ => { tail = Some(obj.into_leaf()); }
        }
        let t = if tail.is_some() { 1 } else { 0 };
        assert!($count == 3 + t);
        assert!(c1.val() == v ^ 1 && c2.val() == v ^ 2);
        if nd::any() { drop(c1); drop(c2); drop(tail); } else { drop(tail); drop(c2); drop(c1); }
    }};
}

nd::harnesses! {
    /// The caller-side glue of a consuming call keeps its own clone of the context alive until the
    /// callee has returned: after the callee released the reference it received, one more (besides
    /// the observer) is still alive, and it is released once control is back.
    #[kani::unwind(4)]
    fn c07_caller_glue_holds_context_across_consuming_call() {
        reset();
        ctx_reset();
        unsafe { M_CALLS = 0; M_INST_DROPS = 0; M_ENTRY_LIVE = -1; M_AFTER_RELEASE_LIVE = -1; M_RET = nd::any(); }
        let base = Ctx::new();
        let mut cell: u64 = nd::any();
        assert!(core::mem::size_of::<ObjV>() == core::mem::size_of::<ConsumeCtxBox<'static, Ctx>>());
        let view = ObjV { vtbl: &MOCK_VT, cont: ContV { inst: &mut cell as *mut u64 as *mut c_void, drop_fn: Some(mock_inst_drop), ctx: base.clone() } };
        let mut obj: ConsumeCtxBox<'static, Ctx> = unsafe { core::mem::transmute(view) };
        assert!(ctx_live() == 2);
        assert!(obj.c_peek() == 5 && obj.c_bump(9) == 9 && ctx_live() == 2, "borrowing calls take no context clone");
        let r = obj.finish();
        unsafe {
            assert!(M_CALLS == 1 && r == M_RET);
            assert!(M_AFTER_RELEASE_LIVE >= 2, "context still held by the caller after the callee released its reference");
            assert!(M_INST_DROPS == 1);
        }
        assert!(ctx_live() == 1, "the caller's clone is released once control is back");
        drop(base);
        assert!(ctx_live() == 0);
    }

    /// Drop order inside an object: its instance is destroyed while its context clone is still alive
    /// (the library must stay loaded while the instance's destructor runs).
    #[kani::unwind(4)]
    fn c07_instance_destroyed_before_context_released() {
        reset();
        ctx_reset();
        let v: u32 = nd::any();
        let with_observer: bool = nd::any();
        let base = Ctx::new();
        let obj = trait_obj!((P::new(v), base.clone()) as Maker);
        let child = obj.make();
        let floor = if with_observer { 1 } else { core::mem::forget(base); 0 };
        // the child goes first, the parent is the last holder
        drop(child);
        unsafe { IN_CONSUMING_CALL = true; CTX_SEEN_AT_SELF_DROP = -1; }
        drop(obj);
        unsafe {
            IN_CONSUMING_CALL = false;
            assert!(CTX_SEEN_AT_SELF_DROP >= floor + 1, "the object's own context clone is alive while its instance is destroyed");
        }
        assert!(live() == 0);
    }

    /// The same for a GROUP object: its container releases the instance first, the context after it.
    #[kani::unwind(4)]
    fn c07_group_instance_destroyed_before_context_released() {
        reset();
        ctx_reset();
        let v: u32 = nd::any();
        let with_observer: bool = nd::any();
        let base = Ctx::new();
        let grp = group_obj!((P::new(v), base.clone()) as crate::c06::BGrp);
        let floor = if with_observer { 1 } else { core::mem::forget(base); 0 };
        unsafe { IN_CONSUMING_CALL = true; CTX_SEEN_AT_SELF_DROP = -1; }
        drop(grp);
        unsafe {
            IN_CONSUMING_CALL = false;
            assert!(CTX_SEEN_AT_SELF_DROP >= floor + 1, "the group's own context clone is alive while its instance is destroyed");
        }
        assert!(live() == 0);
    }

    /// A tree of objects sharing one context: symbolic sequence of {obtain owned child, obtain owned
    /// group child, drop a child}, then a symbolic ending {drop parent, finish (consume), into_leaf
    /// (consume, result keeps the context)}, children dropped before or after the parent.
    #[kani::unwind(5)]
    fn c07_owned_tree() {
        reset();
        ctx_reset();
        let v: u32 = nd::any();
        let base = Ctx::new();
        {
            let obj = trait_obj!((P::new(v), base.clone()) as Maker);
            assert!(ctx_live() == 2);
            let mut c1 = None;
            let mut c2 = None;
            let mut holders = 1;
            let mut k = 0;
            while k < 3 {
                let op: u8 = nd::any();
                nd::assume(op < 4);
                match op {
                    0 => { if c1.is_none() { c1 = Some(obj.make()); holders += 1; } }
                    1 => { if c2.is_none() { c2 = Some(obj.make_group()); holders += 1; } }
                    2 => { if c1.is_some() { c1 = None; holders -= 1; } }
                    _ => { if c2.is_some() { c2 = None; holders -= 1; } }
                }
                assert!(ctx_live() == 1 + holders, "every derived object holds its own clone of the context");
                k += 1;
            }
            nd::cover!(holders == 3, "parent and two children alive");
            let ending: u8 = nd::any();
            nd::assume(ending < 3);
            let mut tail = None;
            match ending {
                0 => drop(obj),
                1 => { assert!(obj.finish() == v ^ 4); }
                _ => { tail = Some(obj.into_leaf()); }
            }
            let t = if tail.is_some() { 1 } else { 0 };
            assert!(ctx_live() == 1 + (holders - 1) + t, "the parent's clone is released (or moved into the result)");
            if let Some(c) = &c1 { assert!(c.val() == v ^ 1); }
            if let Some(g) = &c2 { assert!(g.val() == v ^ 2); }
            if let Some(l) = &tail { assert!(l.val() == v ^ 3); }
            if nd::any() { drop(c1); drop(c2); drop(tail); } else { drop(tail); drop(c2); drop(c1); }
        }
        assert!(ctx_live() == 1, "after all derived objects are dropped the count is back to its starting value");
        drop(base);
        assert!(ctx_live() == 0);
        assert!(live() == 0 && drops() == made());
    }

    /// The same tree with the library's own reference-counted handles as the context: `CArc`, `CArcSome`,
    /// and each obtained from the other by `transpose()`. The count is `Arc::strong_count` of an observer.
    #[kani::unwind(4)]
    fn c07_arc_context_tree() {
        reset();
        let v: u32 = nd::any();
        let base = std::sync::Arc::new(Pay::new(v));
        let kind: u8 = nd::any();
        nd::assume(kind < 4);
        nd::cover!(kind == 2, "CArcSome obtained from CArc");
        match kind {
            0 => c07_tree!(v, CArc::<Pay>::from(base.clone()), std::sync::Arc::strong_count(&base)),
            1 => c07_tree!(v, CArcSome::<Pay>::from(base.clone()), std::sync::Arc::strong_count(&base)),
            2 => c07_tree!(v, CArc::<Pay>::from(base.clone()).transpose().unwrap(), std::sync::Arc::strong_count(&base)),
            _ => c07_tree!(v, CArcSome::<Pay>::from(base.clone()).transpose(), std::sync::Arc::strong_count(&base)),
        }
        assert!(std::sync::Arc::strong_count(&base) == 1, "after all derived objects are dropped the count is back to its starting value");
        drop(base);
        assert!(live() == 0 && drops() == made());
    }

    /// The same tree with an OPAQUE handle to an over-aligned payload as the context: the counters are reachable only
    /// through the functions stored in the handle by its creator.
    #[kani::unwind(4)]
    fn c07_opaque_overaligned_arc_context_tree() {
        reset();
        let v: u32 = nd::any();
        let big = std::sync::Arc::new(Big32(Pay::new(v)));
        c07_tree!(v, CArc::<Big32>::from(big.clone()).into_opaque(), std::sync::Arc::strong_count(&big));
        assert!(std::sync::Arc::strong_count(&big) == 1, "after all derived objects are dropped the count is back to its starting value");
        drop(big);
        assert!(live() == 0 && drops() == made());
    }

    /// A by-value call on a GROUP object (directly, or on the result of a cast): the group's context reference is handed
    /// over and released exactly once - the count is back to its starting value afterwards.
    #[kani::unwind(4)]
    fn c07_group_consuming_call() {
        reset();
        ctx_reset();
        let st: crate::corpus::St = nd::any();
        let direct = crate::corpus::St { val: st.val, calls: core::cell::Cell::new(0), last: core::cell::Cell::new(0), dig: core::cell::Cell::new(st.dig.get()), guard: Pay::new(0) };
        let base = Ctx::new();
        {
            let grp = group_obj!((st, base.clone()) as GrpC);
            assert!(ctx_live() == 2);
            let via_cast: bool = nd::any();
            nd::cover!(via_cast, "consuming call on a cast result");
            let r = if via_cast {
                let c = cast!(grp impl Reader).unwrap();
                assert!(ctx_live() == 2, "a cast moves the context");
                c.finish()
            } else {
                grp.finish()
            };
            assert!(r == direct.finish());
            assert!(ctx_live() == 1, "the consumed group's context reference is released exactly once");
        }
        assert!(ctx_live() == 1);
        drop(base);
        assert!(ctx_live() == 0 && live() == 0 && drops() == made());
    }

    /// A borrowed child handed out as `&mut` is a derived object with its OWN clone of the context: safe code can move
    /// it out of its slot (swap with a stand-alone object of the same type) and drop it, and the parent's reference must
    /// survive that. (Counts are taken on the parent's context only; the object swapped into the slot has another one.)
    #[kani::unwind(12)]
    fn c07_borrowed_child_moved_out_and_dropped() {
        reset();
        let v: u32 = nd::any();
        let lib = std::sync::Arc::new(Pay::new(v));
        let other = std::sync::Arc::new(Pay::new(!v));
        let sp: *mut L = Box::into_raw(Box::new(L(Pay::new(1))));
        {
            let spare: &'static mut L = unsafe { &mut *sp };
            let mut parent = trait_obj!((P::new(v), CArc::<Pay>::from(lib.clone())) as BorrowMut);
            assert!(std::sync::Arc::strong_count(&lib) == 2);
            let mut moved_out = trait_obj!((spare, CArc::<Pay>::from(other.clone())) as Leaf);
            {
                let child = parent.borrow_leaf_mut();
                core::mem::swap(child, &mut moved_out);
            }
            drop(moved_out);
            assert!(std::sync::Arc::strong_count(&lib) == 2, "the parent still holds its own clone after a derived object is dropped");
            drop(parent);
        }
        assert!(std::sync::Arc::strong_count(&lib) == 1, "after all derived objects are dropped the count is back to its starting value");
        // the object swapped INTO the slot (holding a clone of `other`) shares the fate of every borrowed-return slot:
        // it is never dropped (the known finding, not asserted here); release whatever it still holds so that the
        // leak check of this group sees only what the scenario itself would leak
        if std::sync::Arc::strong_count(&other) > 1 {
            unsafe { std::sync::Arc::decrement_strong_count(std::sync::Arc::as_ptr(&other)) };
        }
        drop(other);
        drop(unsafe { Box::from_raw(sp) });
    }

    /// During a by-value call the context is not released before control is back in the caller.
    #[kani::unwind(4)]
    fn c07_consuming_call_keeps_context() {
        reset();
        ctx_reset();
        let v: u32 = nd::any();
        let which: bool = nd::any();
        nd::cover!(which, "finish");
        nd::cover!(!which, "into_leaf");
        let base = Ctx::new();
        let obj = trait_obj!((P::new(v), base.clone()) as Maker);
        assert!(ctx_live() == 2);
        unsafe { IN_CONSUMING_CALL = true; CTX_SEEN_IN_CALL = -1; CTX_SEEN_AT_SELF_DROP = -1; }
        if which {
            let r = obj.finish();
            unsafe { IN_CONSUMING_CALL = false; }
            assert!(r == v ^ 4);
            assert!(ctx_live() == 1);
        } else {
            let l = obj.into_leaf();
            unsafe { IN_CONSUMING_CALL = false; }
            assert!(ctx_live() == 2, "the result holds the context");
            assert!(l.val() == v ^ 3);
            drop(l);
            assert!(ctx_live() == 1);
        }
        unsafe {
            // observer + the reference the callee received by value + the caller's own clone
            assert!(CTX_SEEN_IN_CALL >= 3, "the caller holds its own clone of the context while the by-value method runs");
            assert!(CTX_SEEN_AT_SELF_DROP >= 3, "... and while the consumed value is dropped inside the callee");
        }
        drop(base);
        assert!(ctx_live() == 0);
    }

    /// By-value method returning `Result<wrapped object, E>`: on Err nothing carries the context out, so
    /// only the caller's clone keeps it alive while the callee (which owns the reference it received by
    /// value) is still running: the implementor must see observer + its own + the caller's = 3.
    #[kani::unwind(4)]
    fn c07_consuming_call_returning_wrapped_result() {
        reset();
        ctx_reset();
        let v: u32 = nd::any();
        let fail: bool = nd::any();
        nd::cover!(fail, "Err: nothing carries the context out");
        nd::cover!(!fail, "Ok: the result holds the context");
        let base = Ctx::new();
        let obj = trait_obj!((P::new(v), base.clone()) as TryMaker);
        unsafe { IN_CONSUMING_CALL = true; CTX_SEEN_IN_CALL = -1; CTX_SEEN_AT_SELF_DROP = -1; }
        let r = obj.try_leaf(fail);
        unsafe { IN_CONSUMING_CALL = false; }
        match &r {
            Ok(l) => assert!(!fail && l.val() == v ^ 5 && ctx_live() == 2),
            Err(e) => assert!(fail && *e == v as u8 && ctx_live() == 1),
        }
        unsafe {
            assert!(CTX_SEEN_IN_CALL >= 3, "the caller holds its own clone of the context while the by-value method runs");
            assert!(CTX_SEEN_AT_SELF_DROP >= 3, "... and while the consumed value is destroyed inside the callee");
        }
        drop(r);
        assert!(ctx_live() == 1);
        drop(base);
    }

    /// A FAILED cast / into of a group with a context releases the context it consumed; an owned child
    /// obtained through an integer-coded method holds its own clone.
    #[kani::unwind(4)]
    fn c07_failed_cast_and_int_result_child() {
        reset();
        ctx_reset();
        let v: u32 = nd::any();
        let base = Ctx::new();
        {
            let grp = group_obj!((D2(Pay::new(v)), base.clone()) as DupGrp);
            assert!(ctx_live() == 2 && !grp.check_impl_clone());
            if nd::any() {
                assert!(cast!(grp impl Clone).is_none());
            } else {
                assert!(into!(grp impl Clone).is_none());
            }
            assert!(ctx_live() == 1, "a failed cast releases the context of the group it consumed");
            assert!(live() == 0);
        }
        {
            let fail: bool = nd::any();
            let obj = trait_obj!((P::new(v), base.clone()) as TryMaker);
            let child = obj.try_make(fail);
            assert!(child.is_ok() == !fail);
            assert!(ctx_live() == if fail { 2 } else { 3 }, "an owned child obtained through an integer-coded method holds its own clone");
            drop(obj);
            if let Ok(c) = &child {
                assert!(c.val() == v ^ 6 && ctx_live() == 2);
            }
            drop(child);
        }
        assert!(ctx_live() == 1 && live() == 0 && drops() == made());
        drop(base);
    }

    /// Clone (extension trait), `Self` return and casts of a group with a context.
    #[kani::unwind(4)]
    fn c07_clone_cast_selfreturn() {
        reset();
        ctx_reset();
        let v: u32 = nd::any();
        let base = Ctx::new();
        {
            let grp = group_obj!((D(Pay::new(v)), base.clone()) as DupGrp);
            assert!(ctx_live() == 2);
            let d2 = grp.dup();
            assert!(ctx_live() == 3, "a returned Self object holds its own clone");
            let path: u8 = nd::any();
            nd::assume(path < 3);
            match path {
                0 => {
                    let c = cast!(grp impl Clone).unwrap();
                    assert!(ctx_live() == 3, "a cast moves the context");
                    let c2 = c.clone();
                    assert!(ctx_live() == 4);
                    // back to the base group: `upcast()` or the generated `From` conversion
                    let back = if nd::any() { c.upcast() } else { DupGrp::from(c) };
                    assert!(ctx_live() == 4, "casting back moves the context, it neither clones nor releases it");
                    assert!(live() == 3, "... and does not destroy the instance");
                    drop(back);
                    assert!(ctx_live() == 3 && c2.d_val() == v);
                }
                1 => {
                    let r = as_ref!(grp impl Clone).unwrap();
                    let c2 = r.clone();
                    assert!(ctx_live() == 4);
                    drop(grp);
                    assert!(ctx_live() == 3 && c2.d_val() == v);
                }
                _ => {
                    let c = into!(grp impl Clone).unwrap();
                    assert!(ctx_live() == 3);
                    drop(c);
                    assert!(ctx_live() == 2);
                }
            }
            assert!(d2.d_val() == v ^ 0x10);
        }
        assert!(ctx_live() == 1);
        drop(base);
        assert!(live() == 0);
    }

    /// KNOWN FINDING scenario: borrowed wrapped return (`wrap_with_obj_ref`).
    #[kani::unwind(4)]
    fn c07_kf_borrowed_obj_ref() {
        reset();
        ctx_reset();
        let v: u32 = nd::any();
        let base = Ctx::new();
        {
            let obj = trait_obj!((P::new(v), base.clone()) as BorrowRef);
            assert!(ctx_live() == 2);
            {
                let l = obj.borrow_leaf();
                assert!(l.ro_val() == v ^ 0xFF);
            }
            drop(obj);
        }
        assert!(ctx_live() == 1, "borrowed child (obj_ref): context count back to its starting value");
        core::mem::forget(base);
    }

    /// KNOWN FINDING scenario: borrowed wrapped return (`wrap_with_obj_mut`).
    #[kani::unwind(4)]
    fn c07_kf_borrowed_obj_mut() {
        reset();
        ctx_reset();
        let v: u32 = nd::any();
        let base = Ctx::new();
        {
            let mut obj = trait_obj!((P::new(v), base.clone()) as BorrowMut);
            {
                let l = obj.borrow_leaf_mut();
                assert!(l.set(3) == v ^ 0xFF);
            }
            drop(obj);
        }
        assert!(ctx_live() == 1, "borrowed child (obj_mut): context count back to its starting value");
        core::mem::forget(base);
    }

    /// KNOWN FINDING scenario: borrowed wrapped return (`wrap_with_group_ref`).
    #[kani::unwind(4)]
    fn c07_kf_borrowed_group_ref() {
        reset();
        ctx_reset();
        let v: u32 = nd::any();
        let base = Ctx::new();
        {
            let obj = trait_obj!((P::new(v), base.clone()) as BorrowGrp);
            {
                let g = obj.borrow_group();
                assert!(g.ro_val() == v ^ 0xFF);
                assert!(as_ref!(g impl LeafExtra).unwrap().extra() == !(v ^ 0xFF));
            }
            drop(obj);
        }
        assert!(ctx_live() == 1, "borrowed child (group_ref): context count back to its starting value");
        core::mem::forget(base);
    }

    /// Negative twin: claims an owned child does not hold the context.
    #[kani::unwind(4)]
    fn c07_negative_twin() {
        reset();
        ctx_reset();
        let base = Ctx::new();
        let obj = trait_obj!((P::new(1), base.clone()) as Maker);
        let c = obj.make();
        assert!(ctx_live() == 2, "negative twin: expected to fail");
        core::mem::forget(c);
        core::mem::forget(obj);
        core::mem::forget(base);
    }
}
