//! Harnesses added for the seventh round of seeded changes (C01, C04, C07, C13).
#![allow(clippy::all)]

use crate::corpus2::*;
use crate::corpus3::*;
use crate::corpus4::*;
use cglue::prelude::v1::*;
use cglue::trait_group::GetVtblBase;
use cglue::*;
use core::mem::{size_of, size_of_val, MaybeUninit};
use nd::obs::*;

const W: usize = core::mem::size_of::<usize>();

/// Does a vtable entry return the C integer code? Decided from the TYPE of the stored function pointer (its printed
/// name ends in `-> i32`), so that a generator change of the emitted shape is a failing assertion, not a build error.
fn returns_i32<F>(_f: &F) -> bool {
    let n = core::any::type_name::<F>().as_bytes();
    let l = n.len();
    l >= 6 && n[l - 6] == b'-' && n[l - 5] == b'>' && n[l - 4] == b' ' && n[l - 3] == b'i' && n[l - 2] == b'3' && n[l - 1] == b'2'
}

nd::harnesses! {
    /// C04: methods declared before and after an associated type keep their declaration order in the vtable.
    #[kani::unwind(6)]
    fn r7_vtbl_order_with_type_between_methods() {
        let v: u32 = nd::any();
        let obj = trait_obj!(Mx(v) as Mixed);
        let vt: &MixedVtbl<_, u64> = obj.get_vtbl_base();
        assert!(size_of_val(vt) == 3 * W);
        let w: [usize; 3] = unsafe { core::mem::transmute_copy(vt) };
        assert!(w[0] == vt.first() as usize && w[1] == vt.second() as usize && w[2] == vt.third() as usize, "declaration order");
        assert!(obj.first() == v ^ 1 && obj.second() == v as u64 ^ 2 && obj.third() == v ^ 3);
    }

    /// C04: the opaque type aliases of a trait have the size and alignment of the concrete objects they stand for, for
    /// every container / context flavour.
    fn r7_opaque_aliases_have_the_concrete_size() {
        use crate::corpus2::{LeafRO, L};
        type C = cglue::arc::CArc<Pay>;
        assert!(size_of::<LeafROBox<'static>>() == size_of::<LeafROBaseBox<'static, L>>());
        assert!(size_of::<LeafROCtxBox<'static, C>>() == size_of::<LeafROBaseCtxBox<'static, L, C>>());
        assert!(size_of::<LeafROArcBox<'static>>() == size_of::<LeafROBaseArcBox<'static, L, Pay>>());
        assert!(size_of::<LeafROMut<'static>>() == size_of::<LeafROBaseMut<'static, L>>());
        assert!(size_of::<LeafROCtxMut<'static, C>>() == size_of::<LeafROBaseCtxMut<'static, L, C>>());
        assert!(size_of::<LeafROArcMut<'static>>() == size_of::<LeafROBaseArcMut<'static, L, Pay>>());
        assert!(size_of::<LeafRORef<'static>>() == size_of::<LeafROBaseRef<'static, L>>());
        assert!(size_of::<LeafROCtxRef<'static, C>>() == size_of::<LeafROBaseCtxRef<'static, L, C>>());
        assert!(size_of::<LeafROArcRef<'static>>() == size_of::<LeafROBaseArcRef<'static, L, Pay>>());
        // and the values: a by-mut object with an arc context is 5 words (vtable, reference, 3-word handle)
        assert!(size_of::<LeafROArcMut<'static>>() == 5 * W && size_of::<LeafROArcBox<'static>>() == 6 * W);
        let _ = |x: &dyn LeafRO| x.ro_val();
    }

    /// C07: an owned child obtained THROUGH a borrowed child holds its own clone of the context: it keeps the context
    /// alive after the root is gone, and releases exactly one reference when it goes.
    #[kani::unwind(4)]
    fn r7_owned_child_through_borrowed_child_keeps_context() {
        reset();
        ctx_reset();
        let v: u32 = nd::any();
        let base = Ctx::new();
        let leaf = {
            let root = trait_obj!((Rt(Mid(Pay::new(v))), base.clone()) as Root);
            assert!(ctx_live() == 2);
            let leaf = { let br = root.branch(); assert!(br.b_val() == v); br.leaf() };
            assert!(ctx_live() >= 3, "observer, root and the owned leaf each hold the context");
            drop(root);
            leaf
        };
        let before = ctx_live();
        assert!(before >= 2, "the leaf keeps the context alive after the root is gone");
        assert!(leaf.val() == v ^ 0x77);
        drop(leaf);
        assert!(ctx_live() == before - 1, "the leaf held exactly one reference");
        core::mem::forget(base);
    }

    /// C07: a ZERO-SIZED counted context is cloned for every derived object like any other context.
    #[kani::unwind(4)]
    fn r7_zero_sized_counted_context() {
        reset();
        unsafe { ZCTX_LIVE = 0 };
        let v: u32 = nd::any();
        let base = ZCtx::new();
        {
            let obj = trait_obj!((P::new(v), base.clone()) as Maker);
            assert!(unsafe { ZCTX_LIVE } == 2);
            let c1 = obj.make();
            let c2 = obj.make_group();
            assert!(unsafe { ZCTX_LIVE } == 4, "every derived object holds its own clone of the context");
            if nd::any() { drop(obj); } else { assert!(obj.finish() == v ^ 4); }
            assert!(unsafe { ZCTX_LIVE } == 3);
            assert!(c1.val() == v ^ 1 && c2.val() == v ^ 2);
        }
        assert!(unsafe { ZCTX_LIVE } == 1, "back to the starting value, never below");
        drop(base);
        assert!(live() == 0);
    }

    /// C01: the operand of a cast macro is evaluated once, also when it is itself a call through an opaque object; and
    /// a method returning a borrowed wrapped value returns the sub-object the DIRECT call returns, call after call.
    #[kani::unwind(4)]
    fn r7_cast_operand_once_and_borrowed_result_follows_state() {
        reset();
        let v: u32 = nd::any();
        let maker = trait_obj!(P::new(v) as Maker);
        let made_before = made();
        let c = cast!(maker.make_group() impl LeafExtra);
        assert!(made() == made_before + 1, "the operand expression (a call that creates a value) ran exactly once");
        assert!(c.is_some());
        drop(c);
        drop(maker);
        let w: u32 = nd::any();
        let cur = Cur { a: L(Pay::new(v)), b: L(Pay::new(w)), at_b: core::cell::Cell::new(false) };
        let obj = trait_obj!(&cur as Cursor);
        let steps = nd::range(0, 3);
        let mut k = 0;
        while k < steps {
            let direct = cur.cur().ro_val();
            assert!(obj.cur().ro_val() == direct, "same sub-object as the direct call, on every call");
            obj.advance();
            k += 1;
        }
        assert!(obj.cur().ro_val() == cur.cur().ro_val());
    }

    /// C08: a group with two aliased instantiations of one generic trait, implementor enabling only one of them: every
    /// operation succeeds for the enabled alias and fails for the other.
    #[kani::unwind(8)]
    fn r7_partial_aliased_instantiations() {
        let v: u32 = nd::any();
        let grp = group_obj!(Sh8(v) as AliasGrp);
        assert!(as_ref!(grp impl Zeta).is_some() && as_ref!(grp impl Alpha).is_none());
        assert!(as_ref!(grp impl Zeta + Alpha).is_none());
        let op: u8 = nd::any();
        nd::assume(op < 3);
        match op {
            0 => {
                let c = cast!(grp impl Zeta);
                assert!(c.is_some(), "cast to an enabled alias succeeds");
                let c = c.unwrap();
                assert!(Getter::<u8>::fetch(&c) == v as u8 ^ 0x18 && c.main_t() == v ^ 0xA8);
            }
            1 => assert!(cast!(grp impl Alpha).is_none(), "cast to the alias that is not enabled fails"),
            _ => {
                let c = into!(grp impl Zeta);
                assert!(c.is_some());
            }
        }
    }

    /// C13: a method marked `#[int_result]` whose success payload is a WRAPPED associated type is integer-coded too.
    fn r7_int_result_with_wrapped_payload_is_int_coded() {
        let p = P::new(nd::any());
        let obj = trait_obj!(p as TryMaker);
        let vt: &TryMakerVtbl<_> = obj.get_vtbl_base();
        assert!(returns_i32(&vt.try_make()), "integer-coded exactly when the method is marked to use integer results");
        assert!(!returns_i32(&vt.try_leaf()), "a method without the marker returns a C result by value");
    }
}
