//! C08 / C04 / C05 - a group with FOUR mandatory traits and two optional traits whose names order differently with
//! and without case folding (`IOWrite` < `IoRead` byte-wise, `ioread` < `iowrite` folded).
//!
//! Decides: the mandatory vtable words are in (byte-wise) name order - whatever order the definition lists them in and
//! whatever the hash seed of the expanding compiler process was; every cast operation on every requested subset
//! dispatches each trait's methods to that trait's implementation (the base group, its non-final cast variants and
//! the borrowed views agree on where each optional vtable lives).

use cglue::prelude::v1::*;
use cglue::trait_group::GetVtblBase;
use cglue::*;
use core::mem::{size_of_val, transmute_copy};

#[derive(Clone, PartialEq, Eq, Debug)]
pub struct Sx {
    pub val: u64,
}

macro_rules! simple_trait {
    ($t:ident, $m:ident, $mm:ident, $k:expr) => {
        #[cglue_trait]
        pub trait $t {
            fn $m(&self) -> u64;
            fn $mm(&mut self, v: u64) -> u64;
        }
        impl $t for Sx {
            fn $m(&self) -> u64 {
                self.val ^ $k
            }
            fn $mm(&mut self, v: u64) -> u64 {
                self.val = self.val.rotate_left(3) ^ v ^ $k;
                self.val
            }
        }
    };
}
simple_trait!(Zb, zb, zb_mut, 0x5A);
simple_trait!(Abase, abase, abase_mut, 0xA1);
simple_trait!(Mb, mb, mb_mut, 0x3B00);
simple_trait!(Kb, kb, kb_mut, 0x4B_0000);
simple_trait!(IOWrite, io_write, io_write_mut, 0x1000_0000);
simple_trait!(IoRead, io_read, io_read_mut, 0x2000_0000_0000);

// listed in an order that is neither sorted nor reverse sorted
cglue_trait_group!(CaseGrp, { Zb, Abase, Mb, Kb }, { IoRead, IOWrite });
cglue_impl_group!(Sx, CaseGrp, { IOWrite, IoRead });

// a list that MIXES a built-in external trait with a local one (`Clone` < `Kb`, `Debug` < `IoRead`)
#[derive(Clone, Debug)]
pub struct SyD(pub u64);
#[derive(Clone, Debug)]
pub struct SyR(pub u64);
macro_rules! impl_ext_members {
    ($t:ident) => {
        impl Kb for $t {
            fn kb(&self) -> u64 { self.0 ^ 0x4B }
            fn kb_mut(&mut self, v: u64) -> u64 { self.0 ^= v; self.0 }
        }
        impl IoRead for $t {
            fn io_read(&self) -> u64 { self.0 ^ 0x2000 }
            fn io_read_mut(&mut self, v: u64) -> u64 { self.0 = self.0.rotate_left(1) ^ v; self.0 }
        }
    };
}
#[derive(Clone, Debug)]
pub struct SyT(pub u64);
impl_ext_members!(SyD);
impl_ext_members!(SyR);
impl_ext_members!(SyT);
cglue_trait_group!(ExtGrp, { Kb, Clone }, { IoRead, Debug });
cglue_impl_group!(SyD, ExtGrp, { Debug });
cglue_impl_group!(SyR, ExtGrp, { IoRead });
// a list written with a trailing comma enables every trait it names
cglue_impl_group!(SyT, ExtGrp, { Debug, IoRead, });

// a group WITHOUT mandatory traits and three optional ones
cglue_trait_group!(OptOnly, { }, { Kb, Mb, Zb });
cglue_impl_group!(Sx, OptOnly, { Kb, Mb, Zb });

const W: usize = core::mem::size_of::<usize>();

nd::harnesses! {
    /// Mandatory vtables in name order (Abase, Kb, Mb, Zb), then the optional ones in name order (IOWrite, IoRead).
    #[kani::unwind(10)]
    fn c08x_mandatory_and_optional_word_order() {
        let v: u64 = nd::any();
        let grp = group_obj!(Sx { val: v } as CaseGrp);
        assert!(size_of_val(&grp) == 8 * W, "6 vtable pointers, instance, release function");
        let w: [usize; 8] = unsafe { transmute_copy(&grp) };
        let va: &AbaseVtbl<_> = grp.get_vtbl_base();
        let vk: &KbVtbl<_> = grp.get_vtbl_base();
        let vm: &MbVtbl<_> = grp.get_vtbl_base();
        let vz: &ZbVtbl<_> = grp.get_vtbl_base();
        assert!(w[0] == va as *const _ as usize && w[1] == vk as *const _ as usize, "mandatory vtables in name order");
        assert!(w[2] == vm as *const _ as usize && w[3] == vz as *const _ as usize, "mandatory vtables in name order");
        let c = grp.cast_impl_iowrite_ioread().unwrap();
        let vw: &IOWriteVtbl<_> = c.get_vtbl_base();
        let vr: &IoReadVtbl<_> = c.get_vtbl_base();
        assert!(w[4] == vw as *const _ as usize && w[5] == vr as *const _ as usize, "optional vtables in name order");
    }

    /// Built-in external traits sort among the local ones by name: mandatory `Clone`, `Kb`; optional `Debug`, `IoRead`
    /// (null when absent).
    #[kani::unwind(10)]
    fn c08x_external_and_local_traits_in_one_list() {
        let v: u64 = nd::any();
        let only_debug: bool = nd::any();
        let grp: ExtGrpBox = if only_debug { group_obj!(SyD(v) as ExtGrp) } else { group_obj!(SyR(v) as ExtGrp) };
        assert!(size_of_val(&grp) == 6 * W, "4 vtable pointers, instance, release function");
        let w: [usize; 6] = unsafe { transmute_copy(&grp) };
        let vk: &KbVtbl<_> = grp.get_vtbl_base();
        let vc: &cglue::ext::core::clone::CloneVtbl<_> = grp.get_vtbl_base();
        assert!(w[0] == vc as *const _ as usize && w[1] == vk as *const _ as usize, "mandatory: Clone, then Kb");
        assert!((w[2] != 0) == only_debug, "word 2 is the optional Debug vtable (null when absent)");
        assert!((w[3] != 0) == !only_debug, "word 3 is the optional IoRead vtable (null when absent)");
        assert!(as_ref!(grp impl Debug).is_some() == only_debug && as_ref!(grp impl IoRead).is_some() == !only_debug);
        // a requested set may name a trait by PATH: every named trait counts
        assert!(as_ref!(grp impl Debug + self::IoRead).is_none(), "neither type implements both optional traits");
        let both: ExtGrpBox = group_obj!(SyT(v) as ExtGrp);
        assert!(as_ref!(both impl Debug).is_some() && as_ref!(both impl IoRead).is_some(), "a registration list with a trailing comma enables all its traits");
        assert!(as_ref!(both impl Debug + self::IoRead).is_some());
        let c = grp.clone();
        assert!(c.kb() == v ^ 0x4B);
        if let Some(r) = as_ref!(c impl IoRead) {
            assert!(r.io_read() == v ^ 0x2000);
        }
    }

    /// A group without mandatory traits: a registration that enables several optional traits enables ALL of them.
    #[kani::unwind(10)]
    fn c08x_group_without_mandatory_traits() {
        let v: u64 = nd::any();
        let direct = Sx { val: v };
        let grp = group_obj!(Sx { val: v } as OptOnly);
        assert!(size_of_val(&grp) == 5 * W);
        let w: [usize; 5] = unsafe { transmute_copy(&grp) };
        assert!(w[0] != 0 && w[1] != 0 && w[2] != 0, "every enabled optional vtable is present");
        let r = as_ref!(grp impl Kb + Mb + Zb).unwrap();
        assert!(r.kb() == direct.kb() && r.mb() == direct.mb() && r.zb() == direct.zb());
        assert!(as_ref!(grp impl Kb).is_some() && as_ref!(grp impl Mb).is_some() && as_ref!(grp impl Zb).is_some());
        let c = into!(grp impl Kb + Zb).unwrap();
        assert!(c.kb() == direct.kb() && c.zb() == direct.zb());
    }

    /// Every cast operation, every requested subset: each method reaches its own trait's implementation.
    #[kani::unwind(10)]
    fn c08x_casts_dispatch_to_the_right_trait() {
        let v: u64 = nd::any();
        let x: u64 = nd::any();
        let mut direct = Sx { val: v };
        let mut grp = group_obj!(Sx { val: v } as CaseGrp);
        let op: u8 = nd::any();
        nd::assume(op < 8);
        nd::cover!(op == 4, "as_mut of one optional trait");
        match op {
            0 => {
                let r = as_ref!(grp impl IOWrite).unwrap();
                assert!(r.io_write() == direct.io_write() && r.abase() == direct.abase() && r.zb() == direct.zb());
            }
            1 => {
                let r = as_ref!(grp impl IoRead).unwrap();
                assert!(r.io_read() == direct.io_read() && r.kb() == direct.kb() && r.mb() == direct.mb());
            }
            2 => {
                let r = as_ref!(grp impl IOWrite + IoRead).unwrap();
                assert!(r.io_read() == direct.io_read() && r.io_write() == direct.io_write() && r.mb() == direct.mb());
            }
            3 => {
                let r = as_mut!(grp impl IoRead).unwrap();
                assert!(r.io_read_mut(x) == direct.io_read_mut(x) && r.abase_mut(x) == direct.abase_mut(x));
                assert!(r.io_read() == direct.io_read());
            }
            4 => {
                let r = as_mut!(grp impl IOWrite).unwrap();
                assert!(r.io_write_mut(x) == direct.io_write_mut(x) && r.zb_mut(x) == direct.zb_mut(x));
                assert!(r.io_write() == direct.io_write());
            }
            5 => {
                let mut c = cast!(grp impl IOWrite).unwrap();
                assert!(c.io_write_mut(x) == direct.io_write_mut(x) && c.kb() == direct.kb());
                let back = if nd::any() { c.upcast() } else { CaseGrp::from(c) };
                let r = as_ref!(back impl IoRead).unwrap();
                assert!(r.io_read() == direct.io_read(), "after casting back the other optional trait is still itself");
                let r2 = as_ref!(back impl IOWrite).unwrap();
                assert!(r2.io_write() == direct.io_write());
            }
            6 => {
                let mut c = cast!(grp impl IoRead).unwrap();
                assert!(c.io_read_mut(x) == direct.io_read_mut(x) && c.mb() == direct.mb());
                let back = c.upcast();
                let r = as_ref!(back impl IOWrite).unwrap();
                assert!(r.io_write() == direct.io_write());
            }
            _ => {
                let mut c = into!(grp impl IOWrite + IoRead).unwrap();
                assert!(c.io_read_mut(x) == direct.io_read_mut(x) && c.io_write_mut(x) == direct.io_write_mut(x));
                assert!(c.zb() == direct.zb() && c.abase() == direct.abase());
            }
        }
    }
}
