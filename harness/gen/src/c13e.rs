//! C13 (end to end) - trait methods marked to use integer results.
//!
//! Through the generated Rust-side glue (results equal the direct call's) AND at the vtable level,
//! the way a C caller sees it: the entry is located POSITIONALLY in the vtable, called with
//! (container, args.., out slot) and must return 0 exactly for Ok with the slot written, non-zero
//! for Err with the slot untouched. Covers trait-level `#[int_result]`, method-level
//! `#[int_result]`, `#[no_int_result]` (also with an int-result method declared AFTER it), a result
//! alias, unit and droppable success payloads, and io::Error.

use cglue::prelude::v1::*;
use cglue::result::CResult;
use cglue::trait_group::GetVtblBase;
use cglue::*;
use core::mem::MaybeUninit;
use nd::obs::*;

pub struct R {
    pub k: u64,
}

#[cglue_trait]
#[int_result]
pub trait IR {
    fn ir_val(&self, fail: bool) -> Result<u64, ()>;
    #[no_int_result]
    fn ir_plain(&self, fail: bool) -> Result<u64, u8>;
    fn ir_after(&self, fail: bool) -> Result<u32, ()>;
    fn ir_unit(&mut self, fail: bool) -> Result<(), ()>;
    fn ir_io(&self, code: i32) -> Result<u32, std::io::Error>;
}
impl IR for R {
    fn ir_val(&self, fail: bool) -> Result<u64, ()> {
        if fail { Err(()) } else { Ok(self.k) }
    }
    fn ir_plain(&self, fail: bool) -> Result<u64, u8> {
        if fail { Err(self.k as u8) } else { Ok(!self.k) }
    }
    fn ir_after(&self, fail: bool) -> Result<u32, ()> {
        if fail { Err(()) } else { Ok(self.k as u32) }
    }
    fn ir_unit(&mut self, fail: bool) -> Result<(), ()> {
        self.k = self.k.wrapping_add(1);
        if fail { Err(()) } else { Ok(()) }
    }
    fn ir_io(&self, code: i32) -> Result<u32, std::io::Error> {
        if code == 0 { Ok(self.k as u32) } else { Err(std::io::Error::from_raw_os_error(code)) }
    }
}

pub type MyRes<T, E> = Result<T, E>;

#[cglue_trait]
#[int_result(MyRes)]
pub trait IRA {
    fn ira(&self, fail: bool) -> MyRes<u64, ()>;
    #[no_int_result]
    fn ira_plain(&self, fail: bool) -> MyRes<u64, u8>;
}
impl IRA for R {
    fn ira(&self, fail: bool) -> MyRes<u64, ()> {
        if fail { Err(()) } else { Ok(self.k ^ 7) }
    }
    fn ira_plain(&self, fail: bool) -> MyRes<u64, u8> {
        if fail { Err(3) } else { Ok(self.k) }
    }
}

/// An error type that COULD be integer-coded (it implements IntError, lossily: the payload does not survive), so
/// that a generator which wrongly integer-codes a method after a method-level marker still compiles this crate
/// and is reported through the entry shape and the lost payload rather than as a build failure.
#[derive(Debug, PartialEq, Eq, Clone, Copy)]
#[repr(C)]
pub struct Ec(pub u32);
impl cglue::result::IntError for Ec {
    fn into_int_err(self) -> core::num::NonZeroI32 {
        core::num::NonZeroI32::new(1).unwrap()
    }
    fn from_int_err(_e: core::num::NonZeroI32) -> Self {
        Ec(0)
    }
}

/// method-level marker, droppable success payload
#[cglue_trait]
pub trait IRM {
    #[int_result]
    fn irm_pay(&self, fail: bool) -> Result<Pay, ()>;
    fn irm_cres(&self, fail: bool) -> Result<u32, Ec>;
}
impl IRM for R {
    fn irm_pay(&self, fail: bool) -> Result<Pay, ()> {
        if fail { Err(()) } else { Ok(Pay::new(self.k as u32)) }
    }
    fn irm_cres(&self, fail: bool) -> Result<u32, Ec> {
        if fail { Err(Ec(self.k as u32 | 0x100)) } else { Ok(2) }
    }
}

/// word `idx` of the object's vtable, and the address of its container (the C caller's view of a
/// CGlueTraitObj: { vtbl pointer, container }).
fn c_view<O, V>(obj: &O, vt: &V, idx: usize, n: usize) -> (usize, *const u8) {
    assert!(core::mem::size_of_val(vt) == n * core::mem::size_of::<usize>());
    let word = unsafe { *(vt as *const V as *const usize).add(idx) };
    let words = obj as *const O as *const usize;
    assert!(unsafe { *words } == vt as *const V as usize, "vtable pointer is the object's first word");
    (word, unsafe { words.add(1) } as *const u8)
}

/// How a vtable entry presents itself to a C caller, decided by its TYPE: integer-coded
/// `(container, flag, out slot) -> i32`, or a C result returned by value. Implemented for both
/// function-pointer shapes so that the harness keeps compiling - and turns into a failing
/// assertion instead of a build error - if the generator changes which shape it emits.
pub trait EntryShape<T> {
    /// Some((code, slot value afterwards)) for an integer-coded entry, None otherwise.
    unsafe fn call_int_coded(self, cont: *const u8, flag: bool, slot: &mut MaybeUninit<T>) -> Option<i32>;
}
impl<C, T> EntryShape<T> for for<'a, 'b> unsafe extern "C" fn(&'a C, bool, &'b mut MaybeUninit<T>) -> i32 {
    unsafe fn call_int_coded(self, cont: *const u8, flag: bool, slot: &mut MaybeUninit<T>) -> Option<i32> {
        Some(self(&*(cont as *const C), flag, slot))
    }
}
impl<C, T, E> EntryShape<T> for for<'a> unsafe extern "C" fn(&'a C, bool) -> CResult<T, E> {
    unsafe fn call_int_coded(self, _cont: *const u8, _flag: bool, _slot: &mut MaybeUninit<T>) -> Option<i32> {
        None
    }
}

impl<C, T, E> EntryShape<T> for for<'a> unsafe extern "C" fn(&'a C, bool) -> Result<T, E> {
    unsafe fn call_int_coded(self, _cont: *const u8, _flag: bool, _slot: &mut MaybeUninit<T>) -> Option<i32> {
        None
    }
}

/// one-parameter result alias
pub type IoRes<T> = Result<T, std::io::Error>;
#[cglue_trait]
#[int_result(IoRes)]
pub trait IRB {
    fn irb(&self, fail: bool) -> IoRes<u32>;
}
impl IRB for R {
    fn irb(&self, fail: bool) -> IoRes<u32> {
        if fail { Err(std::io::Error::from_raw_os_error(5)) } else { Ok(self.k as u32 ^ 9) }
    }
}

/// trait-level marker (plain `Result`) TOGETHER with a method-level marker naming a result alias: the method-level
/// one decides for its method
#[cglue_trait]
#[int_result]
pub trait IRC {
    fn irc_plain(&self, fail: bool) -> Result<u64, ()>;
    #[int_result(IoRes)]
    fn irc_alias(&self, fail: bool) -> IoRes<u32>;
}
impl IRC for R {
    fn irc_plain(&self, fail: bool) -> Result<u64, ()> {
        if fail { Err(()) } else { Ok(self.k ^ 11) }
    }
    fn irc_alias(&self, fail: bool) -> IoRes<u32> {
        if fail { Err(std::io::Error::from_raw_os_error(7)) } else { Ok(self.k as u32 ^ 13) }
    }
}

/// a zero-sized payload WITH a destructor
pub static mut Z_MADE: u32 = 0;
pub static mut Z_DROPS: u32 = 0;
pub struct ZDrop(());
impl ZDrop {
    pub fn new() -> ZDrop {
        unsafe { Z_MADE += 1 };
        ZDrop(())
    }
}
impl Drop for ZDrop {
    fn drop(&mut self) {
        unsafe { Z_DROPS += 1 };
    }
}

/// payload shapes: a tuple, result types written with a module path, a zero-sized droppable payload
#[cglue_trait]
#[int_result]
pub trait IRT {
    fn irt_tuple(&self, fail: bool) -> Result<(u32, u64), ()>;
    fn irt_path(&self, fail: bool) -> std::result::Result<u64, ()>;
    fn irt_core_unit(&self, fail: bool) -> core::result::Result<(), ()>;
    fn irt_zst(&self, fail: bool) -> Result<ZDrop, ()>;
    fn irt_unit_io(&self, code: i32) -> Result<(), std::io::Error>;
}
impl IRT for R {
    fn irt_tuple(&self, fail: bool) -> Result<(u32, u64), ()> {
        if fail { Err(()) } else { Ok((self.k as u32 ^ 3, self.k ^ 5)) }
    }
    fn irt_path(&self, fail: bool) -> std::result::Result<u64, ()> {
        if fail { Err(()) } else { Ok(self.k ^ 17) }
    }
    fn irt_core_unit(&self, fail: bool) -> core::result::Result<(), ()> {
        if fail { Err(()) } else { Ok(()) }
    }
    fn irt_zst(&self, fail: bool) -> Result<ZDrop, ()> {
        if fail { Err(()) } else { Ok(ZDrop::new()) }
    }
    fn irt_unit_io(&self, code: i32) -> Result<(), std::io::Error> {
        if code == 0 { Ok(()) } else { Err(std::io::Error::from_raw_os_error(code)) }
    }
}

/// payload-less integer-coded entries: `(container, flag) -> i32`
impl<C> EntryShape<()> for for<'a> unsafe extern "C" fn(&'a C, bool) -> i32 {
    unsafe fn call_int_coded(self, cont: *const u8, flag: bool, _slot: &mut MaybeUninit<()>) -> Option<i32> {
        Some(self(&*(cont as *const C), flag))
    }
}

/// a Display implementation that can FAIL by itself, and a text sink that can fail
pub struct Fm {
    pub fail: bool,
}
impl core::fmt::Display for Fm {
    fn fmt(&self, f: &mut core::fmt::Formatter<'_>) -> core::fmt::Result {
        if self.fail { Err(core::fmt::Error) } else { f.write_str("ok") }
    }
}
pub struct TextSink {
    pub bytes: usize,
    pub fail: bool,
}
impl core::fmt::Write for TextSink {
    fn write_str(&mut self, s: &str) -> core::fmt::Result {
        self.bytes += s.len();
        if self.fail { Err(core::fmt::Error) } else { Ok(()) }
    }
}

/// Drive one entry: integer-coded iff `expect_int`; 0 exactly for Ok; slot written iff Ok.
fn drive_entry<F: EntryShape<T>, T: Copy + PartialEq>(f: F, cont: *const u8, fail: bool, sentinel: T, ok_val: T, expect_int: bool) {
    let mut out = MaybeUninit::<T>::uninit();
    unsafe { out.as_mut_ptr().write(sentinel) };
    let r = unsafe { f.call_int_coded(cont, fail, &mut out) };
    assert!(r.is_some() == expect_int, "the entry is integer-coded exactly when the method is marked to use integer results");
    if let Some(code) = r {
        assert!((code == 0) == !fail, "0 exactly for Ok");
        assert!(unsafe { out.as_ptr().read() } == if fail { sentinel } else { ok_val }, "slot written iff Ok, untouched on Err");
    }
}

nd::harnesses! {
    /// Which entries are integer-coded is decided by the markers: trait-level #[int_result], the
    /// per-method #[no_int_result] opt-out (also with an integer-coded method declared AFTER it),
    /// a result alias, a method-level marker.
    fn c13e_entry_shapes() {
        let mut twin = R { k: nd::any() };
        let k = twin.k;
        let fail: bool = nd::any();
        let s64: u64 = nd::any();
        let s32: u32 = nd::any();
        nd::cover!(fail, "Err");
        nd::cover!(!fail, "Ok");
        {
            let obj = trait_obj!(&mut twin as IR);
            let vt: &IRVtbl<_> = obj.get_vtbl_base();
            let (_, cont) = c_view(&obj, vt, 0, 5);
            drive_entry(vt.ir_val(), cont, fail, s64, k, true);
            drive_entry(vt.ir_plain(), cont, fail, s64, k, false);
            drive_entry(vt.ir_after(), cont, fail, s32, k as u32, true);
        }
        {
            let a = trait_obj!(&twin as IRA);
            let va: &IRAVtbl<_> = a.get_vtbl_base();
            let (_, cont) = c_view(&a, va, 0, 2);
            drive_entry(va.ira(), cont, fail, s64, k ^ 7, true);
            drive_entry(va.ira_plain(), cont, fail, s64, k, false);
        }
        {
            let m = trait_obj!(&twin as IRM);
            let vm: &IRMVtbl<_> = m.get_vtbl_base();
            let (_, cont) = c_view(&m, vm, 1, 2);
            drive_entry(vm.irm_cres(), cont, fail, s32, 2, false);
        }
        {
            let b = trait_obj!(&twin as IRB);
            let vb: &IRBVtbl<_> = b.get_vtbl_base();
            let (_, cont) = c_view(&b, vb, 0, 1);
            drive_entry(vb.irb(), cont, fail, s32, k as u32 ^ 9, true);
            let r = b.irb(fail);
            match &r {
                Ok(v) => assert!(!fail && *v == k as u32 ^ 9),
                Err(e) => assert!(fail && e.raw_os_error() == Some(5)),
            }
            core::mem::forget(r);
        }
    }

    /// Trait-level and method-level markers on one trait: both methods are integer-coded, each by its own marker.
    fn c13e_trait_and_method_markers() {
        let twin = R { k: nd::any() };
        let k = twin.k;
        let fail: bool = nd::any();
        let s64: u64 = nd::any();
        let s32: u32 = nd::any();
        nd::cover!(fail, "Err");
        nd::cover!(!fail, "Ok");
        let c = trait_obj!(&twin as IRC);
        let vc: &IRCVtbl<_> = c.get_vtbl_base();
        let (_, cont) = c_view(&c, vc, 0, 2);
        drive_entry(vc.irc_plain(), cont, fail, s64, k ^ 11, true);
        drive_entry(vc.irc_alias(), cont, fail, s32, k as u32 ^ 13, true);
        let r = c.irc_alias(fail);
        match &r {
            Ok(v) => assert!(!fail && *v == k as u32 ^ 13),
            Err(e) => assert!(fail && e.raw_os_error() == Some(7)),
        }
        core::mem::forget(r);
    }

    /// Payload shapes of integer-coded methods: a tuple (slot written with both components), result types spelled with a
    /// module path (still integer-coded), a payload-less `core::result::Result<(), E>`, and a zero-sized payload with a
    /// destructor (moved through the slot: created once, destroyed once, by the caller).
    fn c13e_payload_shapes() {
        let twin = R { k: nd::any() };
        let k = twin.k;
        let fail: bool = nd::any();
        let s64: u64 = nd::any();
        let s32: u32 = nd::any();
        nd::cover!(fail, "Err");
        nd::cover!(!fail, "Ok");
        unsafe { Z_MADE = 0; Z_DROPS = 0; }
        let t = trait_obj!(&twin as IRT);
        let vt: &IRTVtbl<_> = t.get_vtbl_base();
        let (_, cont) = c_view(&t, vt, 0, 5);
        // a payload-less method keeps its error CODE (every i32)
        let code: i32 = nd::any();
        nd::cover!(code > 1, "an error code other than 1");
        let u = t.irt_unit_io(code);
        match &u {
            Ok(()) => assert!(code == 0),
            Err(e) => assert!(code != 0 && e.raw_os_error() == Some(code), "the error code of a payload-less result survives"),
        }
        core::mem::forget(u);
        drive_entry(vt.irt_tuple(), cont, fail, (s32, s64), (k as u32 ^ 3, k ^ 5), true);
        drive_entry(vt.irt_path(), cont, fail, s64, k ^ 17, true);
        drive_entry(vt.irt_core_unit(), cont, fail, (), (), true);
        assert!(t.irt_tuple(fail) == twin.irt_tuple(fail) && t.irt_path(fail) == twin.irt_path(fail));
        assert!(t.irt_core_unit(fail) == twin.irt_core_unit(fail));
        {
            let z = t.irt_zst(fail);
            assert!(z.is_err() == fail);
            assert!(unsafe { Z_MADE } == if fail { 0 } else { 1 } && unsafe { Z_DROPS } == 0, "a zero-sized payload is moved, not destroyed, on its way out");
            drop(z);
        }
        assert!(unsafe { Z_DROPS == Z_MADE }, "destroyed exactly once");
    }

    /// The built-in formatting traits are integer-coded too: formatting through an opaque `Display` object fails exactly
    /// when the direct call fails - whether the error comes from the implementor's own `fmt` or from the caller's sink.
    #[kani::unwind(6)]
    fn c13e_display_object_reports_fmt_errors() {
        use core::fmt::Write;
        let fail_impl: bool = nd::any();
        let fail_sink: bool = nd::any();
        nd::cover!(fail_impl && !fail_sink, "the implementor's own fmt fails");
        nd::cover!(!fail_impl && fail_sink, "the caller's sink fails");
        let mut direct_sink = TextSink { bytes: 0, fail: fail_sink };
        let direct = write!(direct_sink, "{}", Fm { fail: fail_impl });
        let obj = trait_obj!(Fm { fail: fail_impl } as Display);
        let mut sink = TextSink { bytes: 0, fail: fail_sink };
        let through = write!(sink, "{}", obj);
        assert!(through.is_err() == direct.is_err(), "Ok exactly when the direct call is Ok");
        assert!(through.is_err() == (fail_impl || fail_sink));
        assert!(sink.bytes == direct_sink.bytes, "the same text reaches the sink");
    }

    /// Rust-side round trip equals the direct call, for every marker combination.
    fn c13e_roundtrip() {
        reset();
        let mut direct = R { k: nd::any() };
        let mut twin = R { k: direct.k };
        let fail: bool = nd::any();
        nd::cover!(fail, "Err");
        nd::cover!(!fail, "Ok");
        {
            let mut obj = trait_obj!(&mut twin as IR);
            assert!(obj.ir_val(fail) == direct.ir_val(fail));
            assert!(obj.ir_plain(fail) == direct.ir_plain(fail));
            assert!(obj.ir_after(fail) == direct.ir_after(fail));
            assert!(obj.ir_unit(fail) == direct.ir_unit(fail));
            assert!(obj.ir_val(false) == direct.ir_val(false));
        }
        assert!(twin.k == direct.k);
        let a = trait_obj!(&twin as IRA);
        assert!(a.ira(fail) == direct.ira(fail) && a.ira_plain(fail) == direct.ira_plain(fail));
        let m = trait_obj!(&twin as IRM);
        assert!(m.irm_cres(fail) == direct.irm_cres(fail));
        let p = m.irm_pay(fail);
        assert!(p.is_err() == fail);
        assert!(live() == if fail { 0 } else { 1 } && drops() == 0, "success payload moved out exactly once");
        if let Ok(p) = &p { assert!(p.val == twin.k as u32 && p.is_live()); }
        drop(p);
        assert!(live() == 0 && drops() == made());
    }

    /// io::Error through an int-result method: every i32 OS code.
    fn c13e_io_codes() {
        let mut twin = R { k: nd::any() };
        let k = twin.k;
        let code: i32 = nd::any();
        nd::cover!(code == 0, "success");
        nd::cover!(code < 0, "negative OS code");
        let obj = trait_obj!(&mut twin as IR);
        let r = obj.ir_io(code);
        match &r {
            Ok(v) => assert!(code == 0 && *v == k as u32),
            Err(e) => assert!(code != 0 && e.raw_os_error() == Some(code)),
        }
        core::mem::forget(r);
    }

    /// The C caller's view: entries located by POSITION in the vtable, integer code and out slot.
    fn c13e_vtable_level() {
        reset();
        let mut twin = R { k: nd::any() };
        let twin2 = R { k: twin.k };
        let k = twin.k;
        let fail: bool = nd::any();
        let sentinel: u64 = nd::any();
        let obj = trait_obj!(&mut twin as IR);
        let vt: &IRVtbl<_> = obj.get_vtbl_base();
        // slot 0: ir_val(cont, fail, ok_out) -> i32
        {
            let (w, cont) = c_view(&obj, vt, 0, 5);
            let f: unsafe extern "C" fn(*const u8, bool, *mut u64) -> i32 = unsafe { core::mem::transmute(w) };
            let mut out = MaybeUninit::<u64>::uninit();
            unsafe { out.as_mut_ptr().write(sentinel) };
            let code = unsafe { f(cont, fail, out.as_mut_ptr()) };
            assert!((code == 0) == !fail, "0 exactly for Ok");
            assert!(unsafe { out.as_ptr().read() } == if fail { sentinel } else { k }, "slot written iff Ok, untouched on Err");
        }
        // slot 1: ir_plain is NOT integer-coded: returns the C result by value
        {
            let (w, cont) = c_view(&obj, vt, 1, 5);
            let f: unsafe extern "C" fn(*const u8, bool) -> CResult<u64, u8> = unsafe { core::mem::transmute(w) };
            let r: Result<u64, u8> = unsafe { f(cont, fail) }.into();
            assert!(r == if fail { Err(k as u8) } else { Ok(!k) });
        }
        // slot 2: ir_after - declared AFTER the opted-out method, still integer-coded
        {
            let (w, cont) = c_view(&obj, vt, 2, 5);
            let f: unsafe extern "C" fn(*const u8, bool, *mut u32) -> i32 = unsafe { core::mem::transmute(w) };
            let mut out = MaybeUninit::<u32>::uninit();
            unsafe { out.as_mut_ptr().write(sentinel as u32) };
            let code = unsafe { f(cont, fail, out.as_mut_ptr()) };
            assert!((code == 0) == !fail, "0 exactly for Ok (method after a no_int_result one)");
            assert!(unsafe { out.as_ptr().read() } == if fail { sentinel as u32 } else { k as u32 });
        }
        // slot 4: ir_io(cont, code, ok_out) -> i32 carries the OS code
        {
            let oscode: i32 = nd::any();
            let (w, cont) = c_view(&obj, vt, 4, 5);
            let f: unsafe extern "C" fn(*const u8, i32, *mut u32) -> i32 = unsafe { core::mem::transmute(w) };
            let mut out = MaybeUninit::<u32>::uninit();
            unsafe { out.as_mut_ptr().write(sentinel as u32) };
            let code = unsafe { f(cont, oscode, out.as_mut_ptr()) };
            assert!(code == oscode, "the OS code is the integer result (0 = success)");
            assert!(unsafe { out.as_ptr().read() } == if oscode == 0 { k as u32 } else { sentinel as u32 });
        }
        // result alias
        {
            let a = trait_obj!(&twin2 as IRA);
            let va: &IRAVtbl<_> = a.get_vtbl_base();
            let (w, cont) = c_view(&a, va, 0, 2);
            let f: unsafe extern "C" fn(*const u8, bool, *mut u64) -> i32 = unsafe { core::mem::transmute(w) };
            let mut out = MaybeUninit::<u64>::uninit();
            unsafe { out.as_mut_ptr().write(sentinel) };
            let code = unsafe { f(cont, fail, out.as_mut_ptr()) };
            assert!((code == 0) == !fail);
            assert!(unsafe { out.as_ptr().read() } == if fail { sentinel } else { k ^ 7 });
        }
    }

    /// Negative twin: claims Err is reported as code 0 at the vtable level.
    fn c13e_negative_twin() {
        let mut twin = R { k: nd::any() };
        let obj = trait_obj!(&mut twin as IR);
        let vt: &IRVtbl<_> = obj.get_vtbl_base();
        let (w, cont) = c_view(&obj, vt, 0, 5);
        let f: unsafe extern "C" fn(*const u8, bool, *mut u64) -> i32 = unsafe { core::mem::transmute(w) };
        let mut out = MaybeUninit::<u64>::uninit();
        let code = unsafe { f(cont, true, out.as_mut_ptr()) };
        assert!(code == 0, "negative twin: expected to fail");
    }
}
