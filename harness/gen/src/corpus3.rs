//! Corpus additions prompted by seeded changes the first corpus could not see: a `#[vtbl_only]` method
//! declared between regular ones, a group with an aliased generic member whose alias sorts differently
//! from the trait name, a trait returning two borrowed wrapped objects of the same associated type.

use crate::corpus::St;
use crate::corpus2::*;
use cglue::prelude::v1::*;
use cglue::*;
use nd::obs::*;

#[cglue_trait]
pub trait Stages {
    fn first(&self) -> u32;
    #[vtbl_only]
    fn second(&self) -> u32 {
        0
    }
    fn third(&self) -> u32;
    #[skip_func]
    fn hidden(&self) -> u32 {
        9
    }
    fn fourth(&self, v: u32) -> u32;
}
pub struct Sg(pub u32);
impl Stages for Sg {
    fn first(&self) -> u32 { self.0 ^ 1 }
    fn second(&self) -> u32 { self.0 ^ 2 }
    fn third(&self) -> u32 { self.0 ^ 3 }
    fn fourth(&self, v: u32) -> u32 { self.0 ^ 4 ^ v }
}

/// generic member aliases: `Zeta` (alias of Getter<u8>) sorts after `Delta`, the trait name `Getter` before it
#[cglue_trait]
pub trait Getter<T: Copy + 'static> {
    fn fetch(&self) -> T;
}
#[cglue_trait]
pub trait Delta {
    fn delta(&self) -> u32;
}
#[cglue_trait]
pub trait MainT {
    fn main_t(&self) -> u32;
}
impl Getter<u8> for Sg { fn fetch(&self) -> u8 { self.0 as u8 } }
impl Getter<u64> for Sg { fn fetch(&self) -> u64 { self.0 as u64 ^ 0xFF00 } }
impl Delta for Sg { fn delta(&self) -> u32 { self.0 ^ 0xD } }
impl MainT for Sg { fn main_t(&self) -> u32 { self.0 ^ 0xAA } }
cglue_trait_group!(AliasGrp, MainT, { Delta, Getter<u8> = Zeta, Getter<u64> = Alpha });
cglue_impl_group!(Sg, AliasGrp, { Delta, Getter<u8> = Zeta, Getter<u64> = Alpha });

/// two borrowed wrapped returns of the SAME associated type, held at the same time
#[cglue_trait]
pub trait TwoRefs {
    #[wrap_with_obj_ref(LeafRO)]
    type Sub: LeafRO + 'static;
    fn left(&self) -> &Self::Sub;
    fn right(&self) -> &Self::Sub;
    fn which(&self) -> u32;
}
pub struct Pair {
    pub l: L,
    pub r: L,
    pub k: u32,
}
impl TwoRefs for Pair {
    type Sub = L;
    fn left(&self) -> &L { &self.l }
    fn right(&self) -> &L { &self.r }
    fn which(&self) -> u32 { self.k }
}

/// Default-bodied methods that the implementor OVERRIDES (a `where Self: Sized` one, one taking an
/// associated-type argument), and an unmarked Result-returning method declared after an `#[int_result]` one.
#[cglue_trait]
pub trait Defaults {
    type Msg;
    fn add(&mut self, v: u64) -> u64;
    fn add_twice(&mut self, v: u64) -> u64
    where
        Self: Sized,
    {
        self.add(v);
        self.add(v)
    }
    fn post(&mut self, m: Self::Msg) -> u64;
    fn post_urgent(&mut self, m: Self::Msg, pri: u8) -> u64 {
        let _ = pri;
        self.post(m)
    }
    #[int_result]
    fn coded(&self, fail: bool) -> Result<u64, ()>;
    fn io_after(&self, fail: bool) -> Result<u64, std::io::Error>;
    fn state(&self) -> (u64, u32, u32);
}
#[derive(Clone)]
pub struct Dz {
    pub v: u64,
    pub adds: u32,
    pub urgent: u32,
}
impl Defaults for Dz {
    type Msg = u32;
    fn add(&mut self, v: u64) -> u64 {
        self.adds += 1;
        self.v = self.v.wrapping_add(v);
        self.v
    }
    fn add_twice(&mut self, v: u64) -> u64 {
        // override: ONE logged call with a different effect than the default body
        self.adds += 1;
        self.v = self.v.wrapping_add(v).wrapping_add(v) ^ 0x8000;
        self.v
    }
    fn post(&mut self, m: u32) -> u64 {
        self.v ^= m as u64;
        self.v
    }
    fn post_urgent(&mut self, m: u32, pri: u8) -> u64 {
        self.urgent += 1;
        self.v ^= ((m as u64) << 8) | pri as u64;
        self.v
    }
    fn coded(&self, fail: bool) -> Result<u64, ()> {
        if fail { Err(()) } else { Ok(self.v) }
    }
    fn io_after(&self, fail: bool) -> Result<u64, std::io::Error> {
        if fail { Err(std::io::Error::from(std::io::ErrorKind::InvalidInput)) } else { Ok(!self.v) }
    }
    fn state(&self) -> (u64, u32, u32) {
        (self.v, self.adds, self.urgent)
    }
}

/// a second aliased group in which the two instantiations of the same generic trait are NEIGHBOURS in name order
cglue_trait_group!(AliasGrp2, MainT, { Getter<u8> = Ga, Getter<u64> = Gb, Delta });
cglue_impl_group!(Sg, AliasGrp2, { Getter<u8> = Ga, Getter<u64> = Gb, Delta });

/// an over-aligned type argument of a generic trait (it must not leak into the vtable / object layout)
#[repr(C, align(16))]
#[derive(Clone, Copy, PartialEq, Eq, Debug)]
pub struct A16(pub u64);
impl Getter<A16> for Sg { fn fetch(&self) -> A16 { A16(self.0 as u64 ^ 0x1616) } }

/// a shared borrowed wrapped return declared BEFORE a mutable one (temporary-storage slots follow declaration order)
#[cglue_trait]
pub trait ViewEdit {
    #[wrap_with_obj_ref(LeafRO)]
    type V: LeafRO + 'static;
    #[wrap_with_obj_mut(Leaf)]
    type E: Leaf + 'static;
    fn view(&self) -> &Self::V;
    fn edit(&mut self) -> &mut Self::E;
}
impl ViewEdit for Pair {
    type V = L;
    type E = L;
    fn view(&self) -> &L { &self.l }
    fn edit(&mut self) -> &mut L { &mut self.r }
}

/// an UNWRAPPED associated type (it only marks the vtable / temporary storage, it must not shape them)
#[cglue_trait]
pub trait Sampler {
    type Sample;
    fn sample(&self) -> Self::Sample;
    fn position(&self) -> usize;
}
impl Sampler for Sg {
    type Sample = A16;
    fn sample(&self) -> A16 { A16(self.0 as u64 ^ 0x5A5A) }
    fn position(&self) -> usize { self.0 as usize }
}
impl Sampler for Dz {
    type Sample = u32;
    fn sample(&self) -> u32 { self.v as u32 }
    fn position(&self) -> usize { self.adds as usize }
}

/// a `&mut` wrapped return whose associated type carries a LIFETIME bound (its own generator path)
#[cglue_trait]
pub trait LtMut<'a> {
    #[wrap_with_obj_mut(Leaf)]
    type RetL: Leaf + 'a;
    fn lt_leaf(&'a mut self) -> &'a mut Self::RetL;
}
impl<'a> LtMut<'a> for P {
    type RetL = L;
    fn lt_leaf(&mut self) -> &mut L {
        &mut self.leaf
    }
}

/// a payload larger than 1 KiB with a destructor
pub struct BigPay {
    pub pad: [u8; 1200],
    pub pay: Pay,
}
impl LeafRO for BigPay {
    fn ro_val(&self) -> u32 {
        self.pay.val ^ self.pad[1199] as u32
    }
}

/// an implementor that enables only ONE of the two aliased instantiations of `Getter<T>` in AliasGrp
pub struct Sh8(pub u32);
impl Getter<u8> for Sh8 { fn fetch(&self) -> u8 { self.0 as u8 ^ 0x18 } }
impl MainT for Sh8 { fn main_t(&self) -> u32 { self.0 ^ 0xA8 } }
cglue_impl_group!(Sh8, AliasGrp, { Getter<u8> = Zeta });
