//! Corpus additions prompted by seeded changes the first corpus could not see: a `#[vtbl_only]` method
//! declared between regular ones, a group with an aliased generic member whose alias sorts differently
//! from the trait name, a trait returning two borrowed wrapped objects of the same associated type.

use crate::corpus::St;
use crate::corpus2::*;
use cglue::prelude::v1::*;
use cglue::*;
use nd::obs::*;

#[cglue_trait]
pub trait Stages {
    fn first(&self) -> u32;
    #[vtbl_only]
    fn second(&self) -> u32 {
        0
    }
    fn third(&self) -> u32;
    #[skip_func]
    fn hidden(&self) -> u32 {
        9
    }
    fn fourth(&self, v: u32) -> u32;
}
pub struct Sg(pub u32);
impl Stages for Sg {
    fn first(&self) -> u32 { self.0 ^ 1 }
    fn second(&self) -> u32 { self.0 ^ 2 }
    fn third(&self) -> u32 { self.0 ^ 3 }
    fn fourth(&self, v: u32) -> u32 { self.0 ^ 4 ^ v }
}

/// generic member aliases: `Zeta` (alias of Getter<u8>) sorts after `Delta`, the trait name `Getter` before it
#[cglue_trait]
pub trait Getter<T: Copy + 'static> {
    fn fetch(&self) -> T;
}
#[cglue_trait]
pub trait Delta {
    fn delta(&self) -> u32;
}
#[cglue_trait]
pub trait MainT {
    fn main_t(&self) -> u32;
}
impl Getter<u8> for Sg { fn fetch(&self) -> u8 { self.0 as u8 } }
impl Getter<u64> for Sg { fn fetch(&self) -> u64 { self.0 as u64 ^ 0xFF00 } }
impl Delta for Sg { fn delta(&self) -> u32 { self.0 ^ 0xD } }
impl MainT for Sg { fn main_t(&self) -> u32 { self.0 ^ 0xAA } }
cglue_trait_group!(AliasGrp, MainT, { Delta, Getter<u8> = Zeta, Getter<u64> = Alpha });
cglue_impl_group!(Sg, AliasGrp, { Delta, Getter<u8> = Zeta, Getter<u64> = Alpha });

/// two borrowed wrapped returns of the SAME associated type, held at the same time
#[cglue_trait]
pub trait TwoRefs {
    #[wrap_with_obj_ref(LeafRO)]
    type Sub: LeafRO + 'static;
    fn left(&self) -> &Self::Sub;
    fn right(&self) -> &Self::Sub;
    fn which(&self) -> u32;
}
pub struct Pair {
    pub l: L,
    pub r: L,
    pub k: u32,
}
impl TwoRefs for Pair {
    type Sub = L;
    fn left(&self) -> &L { &self.l }
    fn right(&self) -> &L { &self.r }
    fn which(&self) -> u32 { self.k }
}
