//! Corpus shapes added for the seventh round of seeded changes.
#![allow(clippy::all)]

use crate::corpus2::*;
use cglue::prelude::v1::*;
use cglue::*;
use core::cell::Cell;
use nd::obs::*;

/// an associated type declared BETWEEN methods (the vtable keeps the methods' declaration order)
#[cglue_trait]
pub trait Mixed {
    fn first(&self) -> u32;
    type Item;
    fn second(&self) -> Self::Item;
    fn third(&self) -> u32;
}
pub struct Mx(pub u32);
impl Mixed for Mx {
    type Item = u64;
    fn first(&self) -> u32 { self.0 ^ 1 }
    fn second(&self) -> u64 { self.0 as u64 ^ 2 }
    fn third(&self) -> u32 { self.0 ^ 3 }
}

/// a tree two levels deep whose middle link is a BORROWED child: root -> &branch -> owned leaf
#[cglue_trait]
pub trait Branch {
    #[wrap_with_obj(Leaf)]
    type Lf: Leaf + 'static;
    fn b_val(&self) -> u32;
    fn leaf(&self) -> Self::Lf;
}
pub struct Mid(pub Pay);
impl Branch for Mid {
    type Lf = L;
    fn b_val(&self) -> u32 { self.0.val }
    fn leaf(&self) -> L { L(Pay::new(self.0.val ^ 0x77)) }
}
#[cglue_trait]
pub trait Root {
    #[wrap_with_obj_ref(Branch)]
    type Br: Branch + 'static;
    fn branch(&self) -> &Self::Br;
}
pub struct Rt(pub Mid);
impl Root for Rt {
    type Br = Mid;
    fn branch(&self) -> &Mid { &self.0 }
}

/// the SAME method returns a reference to a different sub-object after the object's state changed
#[cglue_trait]
pub trait Cursor {
    #[wrap_with_obj_ref(LeafRO)]
    type Sub: LeafRO + 'static;
    fn cur(&self) -> &Self::Sub;
    fn advance(&self);
}
pub struct Cur {
    pub a: L,
    pub b: L,
    pub at_b: Cell<bool>,
}
impl Cursor for Cur {
    type Sub = L;
    fn cur(&self) -> &L { if self.at_b.get() { &self.b } else { &self.a } }
    fn advance(&self) { self.at_b.set(!self.at_b.get()); }
}

/// a zero-sized, counted context (a token whose clones and drops are what counts)
pub static mut ZCTX_LIVE: i32 = 0;
pub struct ZCtx;
impl ZCtx {
    pub fn new() -> ZCtx {
        unsafe { ZCTX_LIVE += 1 };
        ZCtx
    }
}
impl Clone for ZCtx {
    fn clone(&self) -> ZCtx {
        unsafe { ZCTX_LIVE += 1 };
        ZCtx
    }
}
impl Drop for ZCtx {
    fn drop(&mut self) {
        unsafe { ZCTX_LIVE -= 1 };
    }
}
unsafe impl Send for ZCtx {}
unsafe impl Sync for ZCtx {}
