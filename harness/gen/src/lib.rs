#![allow(clippy::all)]
#![allow(static_mut_refs)]
#![allow(dead_code)]
#![allow(unused)]

// cglue-gen emits a hard-coded `crate::trait_group` path for `wrap_with_*_ref` / `wrap_with_*_mut`
// associated types (cglue-gen/src/traits.rs:285,312), so a crate using them needs this name at its root.
pub use cglue::trait_group;

pub mod corpus;
pub mod corpus2;
pub mod corpus3;
pub mod corpus4;

pub mod c01;
pub mod c02;
pub mod c04;
pub mod c06;
pub mod c07;
pub mod c08;
pub mod c08x;
pub mod c_r7;
pub mod c13e;

pub const TABLES: &[&[(&str, fn())]] = &[c01::TABLE, c02::TABLE, c13e::TABLE, c04::TABLE, c06::TABLE, c07::TABLE, c08::TABLE, c08x::TABLE, c_r7::TABLE];
