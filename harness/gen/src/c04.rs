//! C04 - generated C layout is a fixed, order-preserving function of the definitions.
//!
//! The raw machine words of a vtable / group object are compared with what the per-name accessors
//! return: the getter of a vtable entry is generated per NAME, the raw word is POSITIONAL, so a
//! reordering, an extra or a missing field breaks the equality (the negative twin shows that the
//! comparison discriminates). Optional vtable presence is symbolic. The opaque and the concrete
//! form of a group are compared bit for bit.
//! Out: "expanding again in another process / crate yields the same layout" (proc-macro determinism
//! under fresh hash seeds: no solver query expresses it).

use crate::corpus::*;
use crate::corpus2::{BorrowMut, BorrowRef, LeafRO, P};
use crate::corpus3::*;
use cglue::prelude::v1::*;
use cglue::trait_group::{GetVtblBase, NoContext, Opaquable};
use cglue::*;
use core::mem::{align_of, size_of, size_of_val, transmute_copy};

const W: usize = size_of::<usize>();

fn words_of<T>(t: &T, n: usize, out: &mut [usize; 12]) {
    assert!(size_of_val(t) == n * W, "exactly one word per slot, nothing else");
    assert!(core::mem::align_of_val(t) == align_of::<usize>());
    let p = t as *const T as *const usize;
    let mut i = 0;
    while i < n {
        out[i] = unsafe { *p.add(i) };
        i += 1;
    }
}

fn eq6(a: &[usize; 6], b: &[usize; 6]) -> bool {
    // (array `==` is a byte-wise memcmp loop; compare word by word instead)
    let mut i = 0;
    let mut ok = true;
    while i < 6 {
        ok &= a[i] == b[i];
        i += 1;
    }
    ok
}

/// A context with a visible payload (to locate it inside the container).
#[repr(C)]
#[derive(Clone)]
pub struct MarkCtx(pub u64);

nd::harnesses! {
    /// Counter: 8 exported methods (the `#[skip_func]` one is not exported), declaration order.
    #[kani::unwind(14)]
    fn c04_vtbl_counter() {
        let st: St = nd::any();
        let obj = trait_obj!(st as Counter);
        let vt: &CounterVtbl<_> = obj.get_vtbl_base();
        let mut w = [0usize; 12];
        words_of(vt, 8, &mut w);
        assert!(w[0] == vt.get() as usize);
        assert!(w[1] == vt.add() as usize);
        assert!(w[2] == vt.fill() as usize);
        assert!(w[3] == vt.checked() as usize);
        assert!(w[4] == vt.swap_opt() as usize);
        assert!(w[5] == vt.pinned() as usize);
        assert!(w[6] == vt.pinned_ref() as usize);
        assert!(w[7] == vt.snap() as usize);
        // one distinct function per method, none missing
        let mut i = 0;
        while i < 8 {
            assert!(w[i] != 0);
            let mut j = i + 1;
            while j < 8 {
                assert!(w[i] != w[j]);
                j += 1;
            }
            i += 1;
        }
    }

    #[kani::unwind(14)]
    fn c04_vtbl_reader_consume_gen() {
        let st: St = nd::any();
        let mut w = [0usize; 12];
        {
            let obj = trait_obj!(&st as Reader);
            let vt: &ReaderVtbl<_> = obj.get_vtbl_base();
            words_of(vt, 5, &mut w);
            assert!(w[0] == vt.rd_get() as usize && w[1] == vt.rd_opt() as usize && w[2] == vt.rd_sum() as usize);
            assert!(w[3] == vt.rd_ext() as usize && w[4] == vt.rd_snap() as usize);
        }
        {
            let obj = trait_obj!(st.clone() as Consume);
            let vt: &ConsumeVtbl<_> = obj.get_vtbl_base();
            words_of(vt, 3, &mut w);
            assert!(w[0] == vt.c_peek() as usize && w[1] == vt.c_bump() as usize && w[2] == vt.finish() as usize);
        }
        {
            let obj = trait_obj!(st.clone() as GenT<u16>);
            let vt: &GenTVtbl<_, u16> = obj.get_vtbl_base();
            words_of(vt, 2, &mut w);
            assert!(w[0] == vt.g_put() as usize && w[1] == vt.g_peek() as usize);
        }
        {
            let obj = trait_obj!(st.clone() as Other);
            let vt: &OtherVtbl<_> = obj.get_vtbl_base();
            words_of(vt, 2, &mut w);
            assert!(w[0] == vt.other() as usize && w[1] == vt.other_mut() as usize);
        }
    }

    /// Group: mandatory vtable pointers in name order, then optional vtable pointers in name order
    /// (null when absent - presence symbolic), then the container: instance (box = two words),
    /// context, zero-sized temporary storage. Opaque form == concrete form, bit for bit.
    #[kani::unwind(14)]
    fn c04_group_words() {
        let st: St = nd::any();
        let mark: u64 = nd::any();
        let has_other: bool = nd::any();
        let has_reader: bool = nd::any();
        nd::cover!(has_other && !has_reader, "only the first optional");
        nd::cover!(!has_other && has_reader, "only the second optional");
        let b = CBox::from(st);
        let inst_addr = &*b as *const St as usize;
        let conc = Grp::new(b, MarkCtx(mark),
                            if has_other { Some(Default::default()) } else { None },
                            if has_reader { Some(Default::default()) } else { None });
        // 3 vtable words + box (2 words) + context (1 word) + zero-sized temporaries
        let mut wc = [0usize; 12];
        words_of(&conc, 6, &mut wc);
        let before: [usize; 6] = unsafe { transmute_copy(&conc) };
        let grp = conc.into_opaque();
        let mut w = [0usize; 12];
        words_of(&grp, 6, &mut w);
        let after: [usize; 6] = unsafe { transmute_copy(&grp) };
        assert!(eq6(&before, &after), "opaque and concrete form have the same bit pattern");
        let vc: &CounterVtbl<_> = grp.get_vtbl_base();
        assert!(w[0] == vc as *const _ as usize, "word 0: the mandatory vtable");
        assert!((w[1] != 0) == has_other, "word 1: optional Other (name order), null iff absent");
        assert!((w[2] != 0) == has_reader, "word 2: optional Reader, null iff absent");
        assert!(w[3] == inst_addr, "then the container: instance pointer of the box");
        assert!(w[4] != 0, "... its drop function");
        assert!(w[5] == mark as usize, "... then the context");
        assert!(grp.check_impl_other() == has_other && grp.check_impl_reader() == has_reader);
        let path: u8 = nd::any();
        nd::assume(path < 3);
        if path == 2 {
            // the FINAL variant keeps the requested vtables only, in the same order, then the container
            if let Some(f) = grp.into_impl_other() {
                assert!(size_of_val(&f) == 5 * W);
                let fw: [usize; 5] = unsafe { transmute_copy(&f) };
                assert!(fw[0] == w[0] && fw[1] == w[1] && fw[2] == w[3] && fw[3] == w[4] && fw[4] == w[5],
                        "final variant: mandatory, requested optional, container");
            }
        } else if path == 1 {
            if let Some(c) = grp.cast_impl_other() {
                let vo: &OtherVtbl<_> = c.get_vtbl_base();
                assert!(w[1] == vo as *const _ as usize, "the optional word is that trait's vtable");
                let vc2: &CounterVtbl<_> = c.get_vtbl_base();
                assert!(w[0] == vc2 as *const _ as usize);
                // the cast result has the same layout as the group (same words)
                let cw: [usize; 6] = unsafe { transmute_copy(&c) };
                assert!(eq6(&cw, &after));
            }
        } else if let Some(c) = grp.cast_impl_reader() {
            let vr: &ReaderVtbl<_> = c.get_vtbl_base();
            assert!(w[2] == vr as *const _ as usize);
            let cw: [usize; 6] = unsafe { transmute_copy(&c) };
            assert!(eq6(&cw, &after));
        }
    }

    /// Single-trait object: vtable pointer first, then the container; sizes and alignments of the
    /// concrete and the opaque types are equal.
    #[kani::unwind(14)]
    fn c04_object_words_and_sizes() {
        let st: St = nd::any();
        let b = CBox::from(st);
        let inst_addr = &*b as *const St as usize;
        let obj = trait_obj!(b as Counter);
        let mut w = [0usize; 12];
        words_of(&obj, 3, &mut w);
        let vt: &CounterVtbl<_> = obj.get_vtbl_base();
        assert!(w[0] == vt as *const _ as usize);
        assert!(w[1] == inst_addr && w[2] != 0);
        assert!(size_of::<Grp<CBox<St>, MarkCtx>>() == size_of::<<Grp<CBox<St>, MarkCtx> as Opaquable>::OpaqueTarget>());
        assert!(align_of::<Grp<CBox<St>, MarkCtx>>() == align_of::<<Grp<CBox<St>, MarkCtx> as Opaquable>::OpaqueTarget>());
        assert!(size_of::<Grp<&St, NoContext>>() == size_of::<<Grp<&St, NoContext> as Opaquable>::OpaqueTarget>());
        assert!(size_of::<Grp<&St, NoContext>>() == 4 * W, "by-reference group: three vtable words and the reference");
    }

    /// A `#[vtbl_only]` method declared BETWEEN regular ones keeps its declaration position; a
    /// `#[skip_func]` one is not exported. Each slot is CALLED as a C consumer would (by position).
    #[kani::unwind(14)]
    fn c04_vtbl_only_in_declaration_order() {
        let v: u32 = nd::any();
        let x: u32 = nd::any();
        let sg = Sg(v);
        let obj = trait_obj!(&sg as Stages);
        let vt: &StagesVtbl<_> = obj.get_vtbl_base();
        let mut w = [0usize; 12];
        words_of(vt, 4, &mut w);
        assert!(w[0] == vt.first() as usize && w[1] == vt.second() as usize);
        assert!(w[2] == vt.third() as usize && w[3] == vt.fourth() as usize);
        // positional calls through the C view of the object { vtbl, container }
        let cont = unsafe { (&obj as *const _ as *const usize).add(1) } as *const u8;
        type F0 = unsafe extern "C" fn(*const u8) -> u32;
        type F1 = unsafe extern "C" fn(*const u8, u32) -> u32;
        unsafe {
            assert!(core::mem::transmute::<usize, F0>(w[0])(cont) == v ^ 1, "slot 0 = first");
            assert!(core::mem::transmute::<usize, F0>(w[1])(cont) == v ^ 2, "slot 1 = second (vtbl_only)");
            assert!(core::mem::transmute::<usize, F0>(w[2])(cont) == v ^ 3, "slot 2 = third");
            assert!(core::mem::transmute::<usize, F1>(w[3])(cont, x) == v ^ 4 ^ x, "slot 3 = fourth");
        }
        // the Rust-side object does not forward a vtbl_only method: it keeps the default body
        assert!(obj.second() == 0 && obj.first() == v ^ 1 && obj.hidden() == 9);
    }

    /// Group members are ordered by NAME - for an aliased generic member by its alias - mandatory first.
    #[kani::unwind(14)]
    fn c04_group_alias_name_order() {
        let v: u32 = nd::any();
        let has: [bool; 3] = nd::any();
        let sg = Sg(v);
        // `new` takes the optional vtables in the same (name) order: Alpha, Delta, Zeta
        let grp = AliasGrp::new(&sg, NoContext::default(),
                                if has[0] { Some(Default::default()) } else { None },
                                if has[1] { Some(Default::default()) } else { None },
                                if has[2] { Some(Default::default()) } else { None }).into_opaque();
        let mut w = [0usize; 12];
        words_of(&grp, 5, &mut w);
        let vm: &MainTVtbl<_> = grp.get_vtbl_base();
        assert!(w[0] == vm as *const _ as usize, "mandatory vtable first");
        assert!((w[1] != 0) == has[0] && (w[2] != 0) == has[1] && (w[3] != 0) == has[2]);
        assert!(w[4] == &sg as *const Sg as usize, "then the instance");
        assert!(grp.check_impl_alpha() == has[0] && grp.check_impl_delta() == has[1] && grp.check_impl_zeta() == has[2]);
        // each optional word really is that member's vtable: call slot 0 of it by position
        let cont = unsafe { (&grp as *const _ as *const usize).add(4) } as *const u8;
        unsafe {
            if has[0] {
                let f: unsafe extern "C" fn(*const u8) -> u64 = core::mem::transmute(*(w[1] as *const usize));
                assert!(f(cont) == (v as u64) ^ 0xFF00, "word 1 = Alpha (Getter<u64>)");
            }
            if has[1] {
                let f: unsafe extern "C" fn(*const u8) -> u32 = core::mem::transmute(*(w[2] as *const usize));
                assert!(f(cont) == v ^ 0xD, "word 2 = Delta");
            }
            if has[2] {
                let f: unsafe extern "C" fn(*const u8) -> u8 = core::mem::transmute(*(w[3] as *const usize));
                assert!(f(cont) == v as u8, "word 3 = Zeta (Getter<u8>)");
            }
        }
    }

    /// Provided methods - also `where Self: Sized` ones and ones taking an associated-type argument - have
    /// their slot, in declaration order (7 exported methods, each one distinct).
    #[kani::unwind(14)]
    fn c04_vtbl_provided_methods_have_slots() {
        let d = Dz { v: nd::any(), adds: 0, urgent: 0 };
        let obj = trait_obj!(d as Defaults);
        let vt: &DefaultsVtbl<_, _> = obj.get_vtbl_base();
        let mut w = [0usize; 12];
        words_of(vt, 7, &mut w);
        // the slots of the two provided methods are located by position only (no getter is named), so that a
        // generator which drops such a slot still compiles this crate and is reported as a layout violation
        assert!(size_of_val(vt) == 7 * W, "one slot per exported method, provided ones included");
        assert!(w[0] == vt.add() as usize && w[2] == vt.post() as usize);
        assert!(w[4] == vt.coded() as usize && w[5] == vt.io_after() as usize);
        assert!(w[6] == vt.state() as usize);
        assert!(w[1] != 0 && w[3] != 0);
        let mut i = 0;
        while i < 7 {
            let mut j = i + 1;
            while j < 7 { assert!(w[i] != w[j]); j += 1; }
            i += 1;
        }
    }

    /// A cast to a NON-CONTIGUOUS subset of the optional traits (Alpha and Zeta, skipping Delta) has the
    /// group's own words; the group's container stores the temporary-return storage of the mandatory trait
    /// before that of the optional one even when the optional trait's name sorts first.
    #[kani::unwind(14)]
    fn c04_noncontiguous_cast_and_ret_tmp_order() {
        let v: u32 = nd::any();
        let sg = Sg(v);
        let grp = group_obj!(&sg as AliasGrp);
        let gw: [usize; 5] = unsafe { transmute_copy(&grp) };
        let c = grp.cast_impl_alpha_zeta().unwrap();
        assert!(size_of_val(&c) == 5 * W);
        let cw: [usize; 5] = unsafe { transmute_copy(&c) };
        let mut i = 0;
        while i < 5 { assert!(cw[i] == gw[i], "cast variant keeps the group's layout"); i += 1; }
        assert!(Getter::<u64>::fetch(&c) == (v as u64) ^ 0xFF00 && Getter::<u8>::fetch(&c) == v as u8);
        // temporary storage order (group BGrp = BorrowRef mandatory, { BorrowMut } optional; "BorrowMut" < "BorrowRef")
        nd::obs::reset();
        let mut p = P::new(v);
        let mut g = group_obj!(&mut p as crate::c06::BGrp);
        let base = &g as *const _ as usize;
        let a = { let r = g.borrow_leaf(); r as *const _ as *const u8 as usize - base };
        let b = {
            let m = as_mut!(g impl BorrowMut).unwrap();
            let r = m.borrow_leaf_mut();
            r as *mut _ as *mut u8 as usize - base
        };
        assert!(a < b, "mandatory trait's temporary storage precedes the optional trait's");
        assert!(a >= 3 * W, "... and both follow the two vtable pointers and the instance");
    }

    /// A generic trait instantiated with an over-aligned type argument has the same vtable and object layout as any
    /// other instantiation: one word per slot, pointer alignment (the type argument is only a marker).
    #[kani::unwind(14)]
    fn c04_overaligned_type_argument() {
        let v: u32 = nd::any();
        let o16 = trait_obj!(Sg(v) as Getter<A16>);
        let o64 = trait_obj!(Sg(v) as Getter<u64>);
        let vt16: &GetterVtbl<_, A16> = o16.get_vtbl_base();
        assert!(size_of_val(vt16) == W && core::mem::align_of_val(vt16) == align_of::<usize>(), "exactly one function pointer per exported method");
        assert!(size_of_val(&o16) == size_of_val(&o64) && core::mem::align_of_val(&o16) == core::mem::align_of_val(&o64));
        assert!(size_of_val(&o16) == 3 * W, "vtable, instance, release function");
        assert!(o16.fetch() == A16(v as u64 ^ 0x1616));
        // the same for an unwrapped ASSOCIATED type
        let s16 = trait_obj!(Sg(v) as Sampler);
        let s32 = trait_obj!(Dz { v: v as u64, adds: 0, urgent: 0 } as Sampler);
        let vs16: &SamplerVtbl<_, A16> = s16.get_vtbl_base();
        assert!(size_of_val(vs16) == 2 * W && core::mem::align_of_val(vs16) == align_of::<usize>(), "exactly one function pointer per exported method");
        assert!(size_of_val(&s16) == size_of_val(&s32) && core::mem::align_of_val(&s16) == core::mem::align_of_val(&s32));
        assert!(size_of_val(&s16) == 3 * W);
        assert!(s16.sample() == A16(v as u64 ^ 0x5A5A) && s32.sample() == v);
    }

    /// Object container = instance, context, temporary storage - in that order, when both the context and the temporary
    /// storage are non-empty; the temporary-storage slots follow the declaration order of their methods (a `&self`
    /// method declared before a `&mut self` one comes first).
    #[kani::unwind(14)]
    fn c04_container_order_with_context_and_ret_tmp() {
        nd::obs::reset();
        let v: u32 = nd::any();
        let mark: u64 = nd::any();
        let b = CBox::from(Pair { l: crate::corpus2::L(nd::obs::Pay::new(v)), r: crate::corpus2::L(nd::obs::Pay::new(!v)), k: 0 });
        let inst_addr = &*b as *const Pair as usize;
        let mut obj = trait_obj!((b, MarkCtx(mark)) as ViewEdit);
        let base = &obj as *const _ as usize;
        let words = base as *const usize;
        assert!(unsafe { *words.add(1) } == inst_addr, "instance follows the vtable pointer");
        assert!(unsafe { *words.add(3) } == mark as usize, "the context follows the instance, before the temporary storage");
        let (a, sa) = { let r = obj.view(); (r as *const _ as *const u8 as usize - base, size_of_val(r)) };
        let (e, se) = { let r = obj.edit(); (r as *mut _ as *mut u8 as usize - base, size_of_val(r)) };
        assert!(a >= 4 * W, "temporary storage follows the context");
        assert!(a < e, "temporary-storage slots in declaration order");
        // each slot is large enough for the wrapper it holds (which carries a clone of THIS object's context)
        assert!(sa >= 3 * W && se >= 3 * W, "a wrapped child holds vtable, reference and context");
        assert!(e - a >= sa, "the slots do not overlap");
        assert!(size_of_val(&obj) >= e + se, "the last slot lies inside the object");
    }

    /// Single-trait object with a visible context: vtable, instance (box), context - in that order.
    #[kani::unwind(14)]
    fn c04_object_with_context_words() {
        let st: St = nd::any();
        let mark: u64 = nd::any();
        let b = CBox::from(st);
        let inst_addr = &*b as *const St as usize;
        let obj = trait_obj!((b, MarkCtx(mark)) as Counter);
        let mut w = [0usize; 12];
        words_of(&obj, 4, &mut w);
        let vt: &CounterVtbl<_> = obj.get_vtbl_base();
        assert!(w[0] == vt as *const _ as usize && w[1] == inst_addr && w[2] != 0);
        assert!(w[3] == mark as usize, "the context follows the instance");
    }

    /// Negative twin: claims word 0 of the Counter vtable is the entry of the SECOND method.
    #[kani::unwind(14)]
    fn c04_negative_twin() {
        let st: St = nd::any();
        let obj = trait_obj!(st as Counter);
        let vt: &CounterVtbl<_> = obj.get_vtbl_base();
        let mut w = [0usize; 12];
        words_of(vt, 8, &mut w);
        assert!(w[0] == vt.add() as usize, "negative twin: expected to fail");
    }
}
