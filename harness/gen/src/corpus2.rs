//! Corpus for C06 / C07: implementors that own a drop-counted payload, traits whose methods return
//! wrapped associated values (owned object, owned group, borrowed object, `Self`) and by-value
//! (consuming) methods; objects carry the counted context `nd::obs::Ctx`.

use cglue::prelude::v1::*;
use cglue::*;
use nd::obs::*;

/// What the implementor observed about the context while a by-value call was running.
pub static mut CTX_SEEN_IN_CALL: i32 = -1;
pub static mut CTX_SEEN_AT_SELF_DROP: i32 = -1;
pub static mut IN_CONSUMING_CALL: bool = false;

#[cglue_trait]
pub trait Leaf {
    fn val(&self) -> u32;
    fn set(&mut self, v: u32) -> u32;
}

#[cglue_trait]
pub trait LeafExtra {
    fn extra(&self) -> u32;
}

cglue_trait_group!(LeafGrp, Leaf, { LeafExtra });

/// read-only leaf trait: by-reference containers cannot carry `&mut self` methods
#[cglue_trait]
pub trait LeafRO {
    fn ro_val(&self) -> u32;
}
cglue_trait_group!(LeafROGrp, LeafRO, { LeafExtra });

/// Leaf value: owns a drop-counted payload.
pub struct L(pub Pay);
impl Leaf for L {
    fn val(&self) -> u32 {
        assert!(self.0.is_live());
        self.0.val
    }
    fn set(&mut self, v: u32) -> u32 {
        let old = self.0.val;
        self.0.val = v;
        old
    }
}
impl LeafExtra for L {
    fn extra(&self) -> u32 {
        !self.0.val
    }
}
cglue_impl_group!(L, LeafGrp, { LeafExtra });
impl LeafRO for L {
    fn ro_val(&self) -> u32 {
        assert!(self.0.is_live());
        self.0.val
    }
}
cglue_impl_group!(L, LeafROGrp, { LeafExtra });

/// Parent value: owns a payload and an embedded leaf.
pub struct P {
    pub pay: Pay,
    pub leaf: L,
}
impl P {
    pub fn new(v: u32) -> P {
        P { pay: Pay::new(v), leaf: L(Pay::new(v ^ 0xFF)) }
    }
}
impl Drop for P {
    fn drop(&mut self) {
        unsafe {
            if IN_CONSUMING_CALL {
                CTX_SEEN_AT_SELF_DROP = ctx_live();
            }
        }
    }
}

#[cglue_trait]
pub trait Maker {
    #[wrap_with_obj(Leaf)]
    type Own: Leaf + 'static;
    #[wrap_with_group(LeafGrp)]
    type OwnG: Leaf + 'static;

    fn peek(&self) -> u32;
    fn make(&self) -> Self::Own;
    fn make_group(&self) -> Self::OwnG;
    fn into_leaf(self) -> Self::Own;
    fn finish(self) -> u32;
}

impl Maker for P {
    type Own = L;
    type OwnG = L;
    fn peek(&self) -> u32 {
        assert!(self.pay.is_live());
        self.pay.val
    }
    fn make(&self) -> L {
        L(Pay::new(self.pay.val ^ 1))
    }
    fn make_group(&self) -> L {
        L(Pay::new(self.pay.val ^ 2))
    }
    fn into_leaf(self) -> L {
        unsafe { CTX_SEEN_IN_CALL = ctx_live() };
        L(Pay::new(self.pay.val ^ 3))
        // `self` (both payloads) is dropped here, inside the callee
    }
    fn finish(self) -> u32 {
        unsafe { CTX_SEEN_IN_CALL = ctx_live() };
        self.pay.val ^ 4
    }
}

/// by-value method whose result is a wrapped object inside a Result
#[cglue_trait]
pub trait TryMaker {
    #[wrap_with_obj(Leaf)]
    type Own: Leaf + 'static;
    fn try_leaf(self, fail: bool) -> Result<Self::Own, u8>;
    #[int_result]
    fn try_make(&self, fail: bool) -> Result<Self::Own, ()>;
}
impl TryMaker for P {
    type Own = L;
    fn try_leaf(self, fail: bool) -> Result<L, u8> {
        unsafe { CTX_SEEN_IN_CALL = ctx_live() };
        if fail { Err(self.pay.val as u8) } else { Ok(L(Pay::new(self.pay.val ^ 5))) }
    }
    fn try_make(&self, fail: bool) -> Result<L, ()> {
        if fail { Err(()) } else { Ok(L(Pay::new(self.pay.val ^ 6))) }
    }
}

#[cglue_trait]
pub trait BorrowRef {
    #[wrap_with_obj_ref(LeafRO)]
    type Ret: LeafRO + 'static;

    fn b_peek(&self) -> u32;
    fn borrow_leaf(&self) -> &Self::Ret;
}
impl BorrowRef for P {
    type Ret = L;
    fn b_peek(&self) -> u32 {
        self.pay.val
    }
    fn borrow_leaf(&self) -> &L {
        &self.leaf
    }
}

#[cglue_trait]
pub trait BorrowMut {
    #[wrap_with_obj_mut(Leaf)]
    type RetM: Leaf + 'static;

    fn borrow_leaf_mut(&mut self) -> &mut Self::RetM;
}
impl BorrowMut for P {
    type RetM = L;
    fn borrow_leaf_mut(&mut self) -> &mut L {
        &mut self.leaf
    }
}

#[cglue_trait]
pub trait BorrowGrp {
    #[wrap_with_group_ref(LeafROGrp)]
    type RetG: LeafRO + 'static;

    fn borrow_group(&self) -> &Self::RetG;
}
impl BorrowGrp for P {
    type RetG = L;
    fn borrow_group(&self) -> &L {
        &self.leaf
    }
}

/// `Self`-returning method and the `Clone` extension trait.
#[cglue_trait]
pub trait Dup {
    fn d_val(&self) -> u32;
    fn dup(&self) -> Self;
}
#[derive(Clone)]
pub struct D(pub Pay);
impl Dup for D {
    fn d_val(&self) -> u32 {
        assert!(self.0.is_live());
        self.0.val
    }
    fn dup(&self) -> D {
        D(Pay::new(self.0.val ^ 0x10))
    }
}

cglue_trait_group!(DupGrp, Dup, { Clone });
cglue_impl_group!(D, DupGrp, { Clone });
/// same group, optional trait NOT enabled
pub struct D2(pub Pay);
impl Dup for D2 {
    fn d_val(&self) -> u32 { self.0.val }
    fn dup(&self) -> D2 { D2(Pay::new(self.0.val ^ 0x10)) }
}
cglue_impl_group!(D2, DupGrp, {});
