//! C01 - calls through an opaque object behave exactly like direct calls.
//!
//! Two copies of the same symbolic initial state: one is driven by direct trait calls, the other is
//! moved / borrowed into an opaque object built by the real macros. A loop of k steps picks a
//! SYMBOLIC operation with SYMBOLIC arguments at every step; return values are compared after every
//! call and the whole state including the call log (calls, last method id, argument digest) after
//! every step, so wrong-method dispatch, a dropped state update and a double call are all visible.
//! Enumerated: the traits of the corpus, the container kind, object / group / cast form.

use crate::corpus::*;
use crate::corpus2::{LeafRO, L};
use crate::corpus3::*;
use cglue::prelude::v1::*;
use cglue::*;
use core::pin::Pin;
use nd::obs::*;

pub fn step_reader<O: Reader>(direct: &St, obj: &O) {
    let op: u8 = nd::any();
    nd::assume(op < 4);
    nd::cover!(op == 2, "slice argument");
    nd::cover!(op == 3, "extern C method");
    match op {
        0 => assert!(direct.rd_get() == obj.rd_get()),
        1 => {
            let v: Option<u32> = if nd::any() { Some(nd::any()) } else { None };
            assert!(direct.rd_opt(v) == obj.rd_opt(v));
        }
        2 => {
            let data: [u8; 3] = nd::any();
            let l = nd::range(0, 3);
            assert!(direct.rd_sum(&data[..l]) == obj.rd_sum(&data[..l]));
        }
        _ => {
            let a: u32 = nd::any();
            let b: u8 = nd::any();
            assert!(direct.rd_ext(a, b) == obj.rd_ext(a, b));
        }
    }
    assert!(direct.rd_snap() == obj.rd_snap(), "same state (incl. call log) after the step");
}

pub fn step_counter<O: Counter + Unpin>(direct: &mut St, obj: &mut O) {
    let op: u8 = nd::any();
    nd::assume(op < 8);
    nd::cover!(op == 2, "mutable slice");
    nd::cover!(op == 3, "int_result method");
    nd::cover!(op == 5, "pinned mutable receiver");
    match op {
        0 => assert!(direct.get() == obj.get()),
        1 => {
            let v: u64 = nd::any();
            assert!(direct.add(v) == obj.add(v));
        }
        2 => {
            let src: [u8; 3] = nd::any();
            let l = nd::range(0, 3);
            let lo = nd::range(0, 2);
            let mut o1 = [0u8; 2];
            let mut o2 = [0u8; 2];
            assert!(direct.fill(&mut o1[..lo], &src[..l]) == obj.fill(&mut o2[..lo], &src[..l]));
            assert!(o1 == o2, "callee writes through the mutable slice are visible to the caller");
        }
        3 => {
            let v: u64 = nd::any();
            let (a, b) = (direct.checked(v), obj.checked(v));
            nd::cover!(a.is_err(), "Err through the integer code");
            assert!(a == b);
        }
        4 => {
            let v: Option<u64> = if nd::any() { Some(nd::any()) } else { None };
            assert!(direct.swap_opt(v) == obj.swap_opt(v));
        }
        5 => {
            let v: u8 = nd::any();
            assert!(Pin::new(&mut *direct).pinned(v) == Pin::new(&mut *obj).pinned(v));
        }
        6 => assert!(Pin::new(&*direct).pinned_ref() == Pin::new(&*obj).pinned_ref()),
        _ => assert!(direct.skipped() == obj.skipped()),
    }
    assert!(direct.snap() == obj.snap(), "same state (incl. call log) after the step");
}

fn reader_loop<O: Reader, const K: usize>(direct: &St, obj: &O) {
    let mut k = 0;
    while k < K {
        step_reader(direct, obj);
        k += 1;
    }
}
fn counter_loop<O: Counter + Unpin, const K: usize>(direct: &mut St, obj: &mut O) {
    let mut k = 0;
    while k < K {
        step_counter(direct, obj);
        k += 1;
    }
}

fn reader_box<const K: usize>() {
    let direct: St = nd::any();
    let twin = direct.clone();
    let obj = trait_obj!(twin as Reader);
    reader_loop::<_, K>(&direct, &obj);
}
fn reader_ref<const K: usize>() {
    let direct: St = nd::any();
    let twin = direct.clone();
    {
        let obj = trait_obj!(&twin as Reader);
        reader_loop::<_, K>(&direct, &obj);
    }
    assert!(twin.snapshot() == direct.snapshot());
}
fn reader_mut<const K: usize>() {
    let direct: St = nd::any();
    let mut twin = direct.clone();
    {
        let obj = trait_obj!(&mut twin as Reader);
        reader_loop::<_, K>(&direct, &obj);
    }
    assert!(twin.snapshot() == direct.snapshot());
}
fn reader_arc<const K: usize>() {
    let direct: St = nd::any();
    let twin = direct.clone();
    let obj = trait_obj!(CArcSome::from(twin) as Reader);
    reader_loop::<_, K>(&direct, &obj);
}
fn reader_ctxbox<const K: usize>() {
    ctx_reset();
    let direct: St = nd::any();
    let twin = direct.clone();
    let obj = trait_obj!((twin, Ctx::new()) as Reader);
    reader_loop::<_, K>(&direct, &obj);
    drop(obj);
    assert!(ctx_live() == 0);
}

fn counter_box<const K: usize>() {
    let mut direct: St = nd::any();
    let twin = direct.clone();
    let mut obj = trait_obj!(twin as Counter);
    counter_loop::<_, K>(&mut direct, &mut obj);
}

/// Trait with a consuming method: symbolic borrowed calls, then the by-value call.
fn consume_box<const K: usize>(with_ctx: bool) {
    reset();
    ctx_reset();
    let mut direct: St = nd::any();
    let twin = direct.clone();
    let mut k = 0;
    macro_rules! drive { ($obj:ident) => {{
        while k < K {
            if nd::any() {
                assert!(direct.c_peek() == $obj.c_peek());
            } else {
                let v: u64 = nd::any();
                assert!(direct.c_bump(v) == $obj.c_bump(v));
            }
            k += 1;
        }
        assert!(direct.finish() == $obj.finish(), "consuming call: same result from the same final state");
        assert!(live() == 0 && drops() == made(), "both consumed values were destroyed exactly once");
    }}}
    if with_ctx {
        let mut obj = trait_obj!((twin, Ctx::new()) as Consume);
        drive!(obj);
        assert!(ctx_live() == 0);
    } else {
        let mut obj = trait_obj!(twin as Consume);
        drive!(obj);
    }
}
fn counter_mut<const K: usize>() {
    let mut direct: St = nd::any();
    let mut twin = direct.clone();
    {
        let mut obj = trait_obj!(&mut twin as Counter);
        counter_loop::<_, K>(&mut direct, &mut obj);
    }
    assert!(twin.snapshot() == direct.snapshot(), "state visible after the borrow ends");
}
fn counter_ctxbox<const K: usize>() {
    ctx_reset();
    let mut direct: St = nd::any();
    let twin = direct.clone();
    let mut obj = trait_obj!((twin, Ctx::new()) as Counter);
    counter_loop::<_, K>(&mut direct, &mut obj);
    drop(obj);
    assert!(ctx_live() == 0);
}

/// Group (boxed): mandatory trait through the group itself, optional traits through every cast
/// form; the forms are selected symbolically per step.
fn group_box<const K: usize>() {
    let mut direct: St = nd::any();
    let twin = direct.clone();
    let mut grp = group_obj!(twin as Grp);
    let mut k = 0;
    while k < K {
        let form: u8 = nd::any();
        nd::assume(form < 4);
        nd::cover!(form == 1, "as_ref! view");
        nd::cover!(form == 2, "as_mut! view");
        match form {
            0 => step_counter(&mut direct, &mut grp),
            1 => {
                let r = as_ref!(grp impl Reader).unwrap();
                step_reader(&direct, r);
            }
            2 => {
                let m = as_mut!(grp impl Other).unwrap();
                let v: u64 = nd::any();
                assert!(direct.other_mut(v) == m.other_mut(v));
                assert!(direct.other() == m.other());
                step_counter(&mut direct, m);
            }
            _ => {
                let r = as_ref!(grp impl Reader + Other).unwrap();
                assert!(direct.other() == r.other());
                step_reader(&direct, r);
            }
        }
        assert!(direct.snap() == grp.snap());
        k += 1;
    }
}

/// Successful `cast!` / `into!` of a group, then calls through the narrowed object.
fn group_cast<const K: usize>() {
    let mut direct: St = nd::any();
    let twin = direct.clone();
    let grp = group_obj!(twin as Grp);
    let which: bool = nd::any();
    nd::cover!(which, "cast!");
    nd::cover!(!which, "into!");
    if which {
        let mut c = cast!(grp impl Reader).unwrap();
        let mut k = 0;
        while k < K {
            if nd::any() {
                step_counter(&mut direct, &mut c);
            } else {
                step_reader(&direct, &c);
            }
            k += 1;
        }
        // cast back and keep going through the full group
        let mut back = GrpBox::from(c);
        step_counter(&mut direct, &mut back);
        let r = as_ref!(back impl Other).unwrap();
        assert!(direct.other() == r.other());
    } else {
        let mut c = into!(grp impl Other).unwrap();
        let mut k = 0;
        while k < K {
            if nd::any() {
                step_counter(&mut direct, &mut c);
            } else {
                let v: u64 = nd::any();
                assert!(direct.other_mut(v) == c.other_mut(v));
            }
            assert!(direct.snap() == c.snap());
            k += 1;
        }
    }
}

/// Consuming method reached through a group and through a cast of it.
fn group_consume() {
    reset();
    let mut direct: St = nd::any();
    let twin = direct.clone();
    let mut grp = group_obj!(twin as GrpC);
    let v: u64 = nd::any();
    assert!(direct.c_bump(v) == grp.c_bump(v));
    let path: u8 = nd::any();
    nd::assume(path < 3);
    match path {
        0 => assert!(direct.finish() == grp.finish()),
        1 => {
            let mut c = cast!(grp impl Reader).unwrap();
            step_reader(&direct, &c);
            assert!(direct.c_bump(!v) == c.c_bump(!v));
            assert!(direct.finish() == c.finish());
        }
        _ => {
            let c = into!(grp impl Other).unwrap();
            assert!(direct.other() == c.other());
            assert!(direct.finish() == c.finish());
        }
    }
    assert!(live() == 0 && drops() == made(), "both consumed values were destroyed exactly once");
}

/// Group over a mutable reference.
fn group_mut<const K: usize>() {
    let mut direct: St = nd::any();
    let mut twin = direct.clone();
    {
        let mut grp = group_obj!(&mut twin as Grp);
        let mut k = 0;
        while k < K {
            if nd::any() {
                step_counter(&mut direct, &mut grp);
            } else {
                let r = as_ref!(grp impl Reader).unwrap();
                step_reader(&direct, r);
            }
            k += 1;
        }
    }
    assert!(twin.snapshot() == direct.snapshot());
}

nd::harnesses! {
    #[kani::unwind(5)] fn c01_reader_box_k3() { reader_box::<3>() }
    #[kani::unwind(5)] fn c01_reader_ref_k3() { reader_ref::<3>() }
    #[kani::unwind(5)] fn c01_reader_mut_k3() { reader_mut::<3>() }
    #[kani::unwind(5)] fn c01_reader_arc_k3() { reader_arc::<3>() }
    #[kani::unwind(5)] fn c01_reader_ctxbox_k3() { reader_ctxbox::<3>() }
    #[kani::unwind(5)] fn c01_counter_box_k3() { counter_box::<3>() }
    #[kani::unwind(5)] fn c01_counter_mut_k3() { counter_mut::<3>() }
    #[kani::unwind(5)] fn c01_counter_ctxbox_k3() { counter_ctxbox::<3>() }
    #[kani::unwind(5)] fn c01_consume_box_k2() { consume_box::<2>(false) }
    #[kani::unwind(5)] fn c01_consume_ctxbox_k2() { consume_box::<2>(true) }
    #[kani::unwind(5)] fn c01_group_consume() { group_consume() }
    #[kani::unwind(5)] fn c01_group_box_k3() { group_box::<3>() }
    #[kani::unwind(5)] fn c01_group_cast_k2() { group_cast::<2>() }
    #[kani::unwind(5)] fn c01_group_mut_k3() { group_mut::<3>() }

    #[kani::unwind(6)] fn c01_reader_box_k4() { reader_box::<4>() }
    #[kani::unwind(6)] fn c01_reader_ref_k4() { reader_ref::<4>() }
    #[kani::unwind(6)] fn c01_reader_arc_k4() { reader_arc::<4>() }
    #[kani::unwind(6)] fn c01_counter_box_k4() { counter_box::<4>() }
    #[kani::unwind(6)] fn c01_counter_mut_k4() { counter_mut::<4>() }
    #[kani::unwind(6)] fn c01_counter_ctxbox_k4() { counter_ctxbox::<4>() }
    #[kani::unwind(6)] fn c01_consume_box_k3() { consume_box::<3>(false) }
    #[kani::unwind(6)] fn c01_consume_ctxbox_k3() { consume_box::<3>(true) }
    #[kani::unwind(6)] fn c01_group_box_k4() { group_box::<4>() }
    #[kani::unwind(6)] fn c01_group_cast_k3() { group_cast::<3>() }
    #[kani::unwind(6)] fn c01_group_mut_k4() { group_mut::<4>() }

    /// Generic trait and lifetime-parameterised trait, boxed and by mutable reference.
    #[kani::unwind(5)]
    fn c01_generic_and_lifetime_traits() {
        let mut direct: St = nd::any();
        let twin = direct.clone();
        let mut twin2 = direct.clone();
        let mut g = trait_obj!(twin as GenT<u16>);
        let mut gm = trait_obj!(&mut twin2 as GenT);
        let mut d2 = direct.clone();
        let mut k = 0;
        while k < 2 {
            let t: u16 = nd::any();
            if nd::any() {
                assert!(direct.g_put(t) == g.g_put(t));
                assert!(d2.g_put(t) == gm.g_put(t));
            } else {
                assert!(direct.g_peek(&t) == g.g_peek(&t));
                assert!(d2.g_peek(&t) == gm.g_peek(&t));
            }
            k += 1;
        }
        drop(gm);
        assert!(twin2.snapshot() == d2.snapshot());
        let l = trait_obj!(&twin2 as LifeT<u64>);
        assert!(*l.l_ref() == *d2.l_ref());
        let v: u64 = nd::any();
        assert!(l.l_cmp(&v) == d2.l_cmp(&v));
        assert!(core::ptr::eq(l.l_ref(), &twin2.val), "returned reference points into the same instance");
    }

    /// Two borrowed wrapped results of the same associated type held AT THE SAME TIME reach their
    /// own sub-instances (each method has its own temporary-return slot), in either call order.
    #[kani::unwind(5)]
    fn c01_two_borrowed_results_alive() {
        reset();
        let a: u32 = nd::any();
        let b: u32 = nd::any();
        let k: u32 = nd::any();
        let order: bool = nd::any();
        let p = Pair { l: L(Pay::new(a)), r: L(Pay::new(b)), k };
        let boxed: bool = nd::any();
        macro_rules! drive { ($obj:ident) => {{
            if order {
                let l = $obj.left();
                let r = $obj.right();
                assert!(l.ro_val() == a && r.ro_val() == b, "both results stay valid while both are alive");
                assert!(l.ro_val() == a);
            } else {
                let r = $obj.right();
                let l = $obj.left();
                assert!(r.ro_val() == b && l.ro_val() == a);
                assert!(r.ro_val() == b);
            }
            assert!($obj.which() == k);
            let again = $obj.left();
            assert!(again.ro_val() == a);
        }}}
        if boxed {
            let obj = trait_obj!(p as TwoRefs);
            drive!(obj);
        } else {
            let obj = trait_obj!(&p as TwoRefs);
            drive!(obj);
        }
    }

    /// A group built from a type that enables only SOME optional traits: calls still agree, and a view
    /// that needs a trait which was not enabled is refused (so no call can go through a missing vtable).
    #[kani::unwind(5)]
    fn c01_group_partial_impl() {
        let mut direct: St = nd::any();
        let twin = StO(direct.clone());
        let mut grp = group_obj!(twin as Grp);
        assert!(as_ref!(grp impl Reader).is_none());
        assert!(as_ref!(grp impl Reader + Other).is_none(), "a view needs EVERY requested trait");
        assert!(as_mut!(grp impl Reader + Other).is_none());
        step_counter(&mut direct, &mut grp);
        {
            let o = as_mut!(grp impl Other).unwrap();
            let v: u64 = nd::any();
            assert!(direct.other_mut(v) == o.other_mut(v));
            step_counter(&mut direct, o);
        }
        assert!(direct.snap() == grp.snap());
        assert!(cast!(grp impl Reader + Other).is_none());
    }

    /// Overridden default-bodied methods (`where Self: Sized`, associated-type argument) reach the
    /// implementor's override, and a Result method declared after an `#[int_result]` one keeps its error.
    #[kani::unwind(5)]
    fn c01_overridden_defaults_and_marker_scope() {
        let mut direct = Dz { v: nd::any(), adds: 0, urgent: 0 };
        let mut twin = direct.clone();
        let boxed: bool = nd::any();
        let v: u64 = nd::any();
        let m: u32 = nd::any();
        let pri: u8 = nd::any();
        let fail: bool = nd::any();
        macro_rules! drive { ($obj:ident) => {{
            assert!(direct.add_twice(v) == $obj.add_twice(v), "the override of a `where Self: Sized` default method is reached");
            assert!(direct.post_urgent(m, pri) == $obj.post_urgent(m, pri), "the override of a default method with an associated-type argument is reached");
            assert!(direct.post(m) == $obj.post(m) && direct.add(v) == $obj.add(v));
            assert!(direct.coded(fail) == $obj.coded(fail));
            let (a, b) = (direct.io_after(fail), $obj.io_after(fail));
            match (&a, &b) {
                (Ok(x), Ok(y)) => assert!(x == y && !fail),
                (Err(x), Err(y)) => assert!(x.kind() == y.kind() && x.raw_os_error() == y.raw_os_error(), "a non-integer-coded error crosses unaltered"),
                _ => assert!(false, "Ok/Err differ"),
            }
            core::mem::forget(a);
            core::mem::forget(b);
            assert!(direct.state() == $obj.state(), "same state and call counts");
        }}}
        if boxed {
            let mut obj = trait_obj!(twin as Defaults);
            drive!(obj);
        } else {
            let mut obj = trait_obj!(&mut twin as Defaults);
            drive!(obj);
        }
    }

    /// Negative twin: claims `add` through the object leaves the value unchanged.
    #[kani::unwind(5)]
    fn c01_negative_twin() {
        let direct: St = nd::any();
        let mut obj = trait_obj!(direct.clone() as Counter);
        let v: u64 = nd::any();
        nd::assume(v != 0);
        obj.add(v);
        assert!(obj.get() == direct.val, "negative twin: expected to fail");
    }
}
