//! C14 - ReprCString owns one well-formed NUL-terminated buffer.
//!
//! Symbolic: every input byte and the input length (0..=N) - so the alphabet contains NUL, ASCII
//! and every whole multi-byte sequence that fits; inputs are assumed valid UTF-8 (by the
//! independent acceptor), as the property states. Enumerated: the constructor.
//! These harnesses run with CBMC's memory-leak check on, and Kani's deallocation model checks
//! that each free passes the size the block was allocated with.

use crate::common::*;
use cglue::repr_cstring::{ReprCStr, ReprCString};
use std::hash::{Hash, Hasher};

struct SumHasher(u64);
impl Hasher for SumHasher {
    fn finish(&self) -> u64 {
        self.0
    }
    fn write(&mut self, bytes: &[u8]) {
        let mut i = 0;
        while i < bytes.len() {
            self.0 = self.0.wrapping_mul(31).wrapping_add(bytes[i] as u64 + 1);
            i += 1;
        }
    }
}
fn hash_of<T: Hash + ?Sized>(t: &T) -> u64 {
    let mut h = SumHasher(7);
    t.hash(&mut h);
    h.finish()
}

fn raw_ptr(c: &ReprCString) -> *const u8 {
    // #[repr(transparent)] over NonNull<c_char>: the value *is* the buffer pointer (C view).
    assert!(core::mem::size_of::<ReprCString>() == core::mem::size_of::<*const u8>());
    unsafe { core::mem::transmute_copy::<ReprCString, *const u8>(c) }
}

fn build(ctor: u8, b: &[u8]) -> ReprCString {
    let s = unsafe { core::str::from_utf8_unchecked(b) };
    match ctor {
        0 => ReprCString::from(s),
        1 => ReprCString::from(String::from(s)),
        _ => ReprCString::from(b),
    }
}

/// Buffer = input up to its first NUL + exactly one NUL; reads back as that prefix; owning;
/// clone is equal and distinct; dropped inside the harness (leak / size-matched free checked).
fn cstring_wellformed<const N: usize>(ctor: u8) {
    let bytes: [u8; N] = nd::any();
    let len = nd::range(0, N);
    let b = &bytes[..len];
    nd::assume(ref_utf8(b));
    let n = nul_prefix_len(b);
    nd::cover!(len == 0, "empty input");
    nd::cover!(len == N && n == N, "NUL-free full-length input");
    nd::cover!(len >= 2 && n == len - 1, "NUL-terminated input");
    nd::cover!(len >= 3 && n + 1 < len && n > 0, "interior NUL");
    nd::cover!(len >= 1 && n == 0, "leading NUL");
    nd::cover!(n >= 2 && b[0] >= 0xC2, "multi-byte sequence kept");

    let c = build(ctor, b);
    let p = raw_ptr(&c);
    assert!(p != bytes.as_ptr(), "owns its own buffer");
    let r: &str = c.as_ref();
    assert!(r.len() == n, "reads back as the prefix (length)");
    assert!(r.as_ptr() == p);
    let rb = r.as_bytes();
    let mut i = 0;
    while i < n {
        assert!(rb[i] == b[i], "reads back as the prefix (bytes)");
        assert!(unsafe { *p.add(i) } == b[i]);
        i += 1;
    }
    assert!(unsafe { *p.add(n) } == 0, "terminating NUL directly after the prefix");
    let d: &str = &c;
    assert!(d.len() == n && d.as_ptr() == p);
    {
        // the borrowed view of the owned string is the same C string
        let bv: &ReprCStr = std::borrow::Borrow::borrow(&c);
        let bs: &str = bv.as_ref();
        assert!(bs.len() == n && bs.as_ptr() == p, "Borrow<ReprCStr> reads the same text in place");
    }

    drop(c);
}

/// Clone is equal by content, owns a distinct well-formed buffer, and survives the original.
fn cstring_clone<const N: usize>(ctor: u8) {
    let bytes: [u8; N] = nd::any();
    let len = nd::range(0, N);
    let b = &bytes[..len];
    nd::assume(ref_utf8(b));
    let n = nul_prefix_len(b);
    nd::cover!(n == N, "full-length clone");
    nd::cover!(n == 0, "empty clone");
    let c = build(ctor, b);
    let p = raw_ptr(&c);
    let c2 = c.clone();
    let p2 = raw_ptr(&c2);
    assert!(p2 != p, "clone owns a distinct buffer");
    assert!(c2 == c);
    assert!(unsafe { *p2.add(n) } == 0);
    drop(c);
    // the clone is still intact after the original is gone
    let r2: &str = c2.as_ref();
    assert!(r2.len() == n);
    let rb2 = r2.as_bytes();
    let mut i = 0;
    while i < n {
        assert!(rb2[i] == b[i]);
        i += 1;
    }
    drop(c2);
}

/// `clone_from` (whatever its implementation) leaves a well-formed copy of the source: content, one
/// terminating NUL, and a buffer that is later freed with the size it was allocated with.
fn cstring_clone_from<const N: usize>() {
    let a: [u8; N] = nd::any();
    let la = nd::range(0, N);
    let b: [u8; N] = nd::any();
    let lb = nd::range(0, N);
    nd::assume(ref_utf8(&a[..la]) && ref_utf8(&b[..lb]));
    let na = nul_prefix_len(&a[..la]);
    let nb = nul_prefix_len(&b[..lb]);
    nd::cover!(nb < na && nb > 0, "shorter source into a longer destination");
    nd::cover!(nb > na, "longer source");
    let mut dst = build(0, &a[..la]);
    let src = build(2, &b[..lb]);
    dst.clone_from(&src);
    assert!(dst == src);
    let r: &str = dst.as_ref();
    assert!(r.len() == nb);
    let p = raw_ptr(&dst);
    assert!(p != raw_ptr(&src));
    let mut i = 0;
    while i < nb {
        assert!(unsafe { *p.add(i) } == b[i]);
        i += 1;
    }
    assert!(unsafe { *p.add(nb) } == 0);
    drop(src);
    drop(dst);
}

/// Equality and hashing are by content: two independently chosen inputs compare equal exactly
/// when their NUL-prefixes are equal, equal strings hash equally, and the hash is that of the
/// prefix `str`.
fn cstring_eq_hash<const N: usize>(ctor1: u8, ctor2: u8) {
    let a: [u8; N] = nd::any();
    let la = nd::range(0, N);
    let b: [u8; N] = nd::any();
    let lb = nd::range(0, N);
    nd::assume(ref_utf8(&a[..la]) && ref_utf8(&b[..lb]));
    let na = nul_prefix_len(&a[..la]);
    let nb = nul_prefix_len(&b[..lb]);
    let mut same = na == nb;
    let mut i = 0;
    while i < N {
        if i < na && i < nb && a[i] != b[i] {
            same = false;
        }
        i += 1;
    }
    nd::cover!(same && na > 0 && la != lb, "equal prefixes of different inputs");
    nd::cover!(!same && na == nb && na > 0, "same length, different content");
    let ca = build(ctor1, &a[..la]);
    let cb = build(ctor2, &b[..lb]);
    assert!((ca == cb) == same);
    let ha = hash_of(&ca);
    let hb = hash_of(&cb);
    if same {
        assert!(ha == hb);
    }
    let pa = unsafe { core::str::from_utf8_unchecked(&a[..na]) };
    assert!(ha == hash_of(pa));
    drop(ca);
    drop(cb);
}

/// A ReprCStr borrowed from a C string reads back the same text, in place.
fn cstr_borrowed<const N: usize>() {
    let mut bytes: [u8; N] = nd::any();
    let len = nd::range(0, N - 1);
    let mut i = 0;
    while i < N {
        if i < len {
            nd::assume(bytes[i] != 0);
        }
        i += 1;
    }
    bytes[len] = 0;
    nd::assume(ref_utf8(&bytes[..len]));
    nd::cover!(len == 0, "empty C string");
    nd::cover!(len == N - 1, "longest C string");
    let cs = unsafe { std::ffi::CStr::from_bytes_with_nul_unchecked(&bytes[..len + 1]) };
    let r = ReprCStr::from(cs);
    let s: &str = r.as_ref();
    assert!(s.len() == len);
    assert!(s.as_ptr() == bytes.as_ptr());
    let sb = s.as_bytes();
    let mut i = 0;
    while i < len {
        assert!(sb[i] == bytes[i]);
        i += 1;
    }
    let r2 = r;
    assert!(r2 == r);
    assert!(hash_of(&r) == hash_of(s));
}

/// a text sink recording the bytes it is given
struct ByteSink {
    buf: [u8; 8],
    n: usize,
}
impl core::fmt::Write for ByteSink {
    fn write_str(&mut self, s: &str) -> core::fmt::Result {
        let b = s.as_bytes();
        let mut i = 0;
        while i < b.len() && self.n < 8 {
            self.buf[self.n] = b[i];
            self.n += 1;
            i += 1;
        }
        Ok(())
    }
}

nd::harnesses! {
    #[kani::unwind(7)] fn c14_from_str_3() { cstring_wellformed::<3>(0) }
    #[kani::unwind(7)] fn c14_from_string_3() { cstring_wellformed::<3>(1) }
    #[kani::unwind(7)] fn c14_from_bytes_3() { cstring_wellformed::<3>(2) }
    #[kani::unwind(8)] fn c14_from_str_4() { cstring_wellformed::<4>(0) }
    #[kani::unwind(8)] fn c14_from_string_4() { cstring_wellformed::<4>(1) }
    #[kani::unwind(8)] fn c14_from_bytes_4() { cstring_wellformed::<4>(2) }
    #[kani::unwind(6)] fn c14_clone_2() { cstring_clone::<2>(0) }
    #[kani::unwind(7)] fn c14_clone_3() { cstring_clone::<3>(2) }
    #[kani::unwind(6)] fn c14_clone_from_2() { cstring_clone_from::<2>() }
    #[kani::unwind(7)] fn c14_clone_from_3() { cstring_clone_from::<3>() }
    #[kani::unwind(10)] fn c14_eq_hash_str_2() { cstring_eq_hash::<2>(0, 0) }
    #[kani::unwind(10)] fn c14_eq_hash_mixed_2() { cstring_eq_hash::<2>(0, 2) }
    #[kani::unwind(10)] fn c14_eq_hash_str_3() { cstring_eq_hash::<3>(0, 0) }
    #[kani::unwind(10)] fn c14_eq_hash_mixed_3() { cstring_eq_hash::<3>(2, 0) }
    #[kani::unwind(7)] fn c14_cstr_borrowed_4() { cstr_borrowed::<4>() }
    #[kani::unwind(8)] fn c14_cstr_borrowed_5() { cstr_borrowed::<5>() }
    #[kani::unwind(9)] fn c14_cstr_borrowed_6() { cstr_borrowed::<6>() }

    /// Formatting (`{}`) an owned or borrowed C string produces exactly its text, multi-byte characters included.
    #[kani::unwind(12)]
    fn c14_display_produces_the_text() {
        use core::fmt::Write;
        let which: u8 = nd::any();
        nd::assume(which < 3);
        let text: &str = match which { 0 => "", 1 => "h\u{e9}", _ => "\u{20ac}a" };
        let owned = ReprCString::from(text);
        let mut sink = ByteSink { buf: [0; 8], n: 0 };
        let borrowed: bool = nd::any();
        if borrowed {
            let r: &ReprCStr = core::borrow::Borrow::borrow(&owned);
            write!(sink, "{}", r).unwrap();
        } else {
            write!(sink, "{}", owned).unwrap();
        }
        let tb = text.as_bytes();
        assert!(sink.n == tb.len(), "reads back as that prefix: same byte length");
        let mut i = 0;
        while i < tb.len() {
            assert!(sink.buf[i] == tb[i], "reads back the same text");
            i += 1;
        }
    }

    /// Negative twin: claims the buffer keeps bytes after an interior NUL.
    #[kani::unwind(7)]
    fn c14_negative_twin() {
        let bytes: [u8; 3] = nd::any();
        nd::assume(bytes[0] != 0 && bytes[0] < 0x80 && bytes[1] == 0 && bytes[2] != 0 && bytes[2] < 0x80);
        let c = build(0, &bytes[..]);
        let r: &str = c.as_ref();
        assert!(r.len() == 3, "negative twin: expected to fail");
    }
}
