//! C19 - a waker crossing the boundary wakes the original and is released once (sequential).
//!
//! The caller's waker is a hand-written RawWaker over a stack-allocated counter record; the only
//! heap block is cglue's BaseArc<CRawWaker>. Derivation skeletons (which foreign handle is cloned
//! from which) are ENUMERATED, because a handle whose existence is symbolic makes every vtable
//! call fan out over all function-pointer candidates. On a skeleton everything else is SYMBOLIC:
//! for each handle the phase in which it ends (the last phase is after with_waker/poll returned),
//! whether it ends by drop or by wake (by value), a wake_by_ref flag per handle and phase, a
//! wake_by_ref on the borrowed waker, and the relative order inside a phase.
//! Out: other threads; more than 3 foreign handles.

use cglue::task::CRefWaker;
use core::mem::ManuallyDrop;
use core::task::{RawWaker, RawWakerVTable, Waker};

pub struct Cnt {
    pub live: i32,
    pub wakes: u32,
    pub bad: bool,
    pub clones: u32,
}

/// The record of a caller's waker: behind its data pointer - or, for a waker WITHOUT a data pointer (null data, a vtable whose
/// state lives in a static: what no-op, counting and executor-global wakers look like), the static record.
static mut SCNT: Cnt = Cnt { live: 1, wakes: 0, bad: false, clones: 0 };
unsafe fn rec(p: *const ()) -> &'static mut Cnt {
    if p.is_null() { &mut *core::ptr::addr_of_mut!(SCNT) } else { &mut *(p as *mut Cnt) }
}
unsafe fn w_clone(p: *const ()) -> RawWaker {
    let c = rec(p);
    if c.live <= 0 {
        c.bad = true;
    }
    c.live += 1;
    c.clones += 1;
    RawWaker::new(p, &VT)
}
unsafe fn w_wake(p: *const ()) {
    let c = rec(p);
    if c.live <= 0 {
        c.bad = true;
    }
    c.wakes += 1;
    c.live -= 1;
}
unsafe fn w_wake_by_ref(p: *const ()) {
    let c = rec(p);
    if c.live <= 0 {
        c.bad = true;
    }
    c.wakes += 1;
}
unsafe fn w_drop(p: *const ()) {
    let c = rec(p);
    if c.live <= 0 {
        c.bad = true;
    }
    c.live -= 1;
}
static VT: RawWakerVTable = RawWakerVTable::new(w_clone, w_wake, w_wake_by_ref, w_drop);

/// A foreign-side handle with a symbolic fate.
struct H {
    w: ManuallyDrop<Waker>,
    alive: bool,
    end: u8,
    by_wake: bool,
}

impl H {
    fn new(w: Waker, phases: u8) -> H {
        let end: u8 = nd::any();
        nd::assume(end < phases);
        H { w: ManuallyDrop::new(w), alive: true, end, by_wake: nd::any() }
    }
}

/// One phase for one handle: maybe wake_by_ref, and end the handle if this is its phase.
fn phase(h: &mut H, p: u8, wakes: &mut u32) {
    let wbr: bool = nd::any();
    if h.alive && wbr {
        h.w.wake_by_ref();
        *wakes += 1;
    }
    if h.alive && h.end == p {
        h.alive = false;
        let w = unsafe { ManuallyDrop::take(&mut h.w) };
        if h.by_wake {
            w.wake();
            *wakes += 1;
        } else {
            drop(w);
        }
    }
}

fn finish(cnt: &Cnt, wakes: u32, hs: &[&H]) {
    let mut i = 0;
    while i < hs.len() {
        assert!(!hs[i].alive);
        i += 1;
    }
    assert!(!cnt.bad, "nothing touches the original after all clones of it are gone");
    assert!(cnt.live == 1, "every clone taken of the caller's waker is released exactly once");
    assert!(cnt.wakes == wakes, "one wake of the original per wake");
}

macro_rules! with_orig {
    ($cnt:ident, $orig:ident, $body:block) => {{
        let mut $cnt = Cnt { live: 1, wakes: 0, bad: false, clones: 0 };
        let $orig = unsafe { Waker::from_raw(RawWaker::new(&mut $cnt as *mut Cnt as *const (), &VT)) };
        $body
        core::mem::forget($orig);
    }};
}

/// A future whose `poll` runs a chain-of-2 skeleton on the waker it is given and RETAINS the handles
/// that did not end inside the poll (they are ended by the harness after the poll has returned).
pub struct Slots {
    ha: Option<H>,
    hb: Option<H>,
    wakes: u32,
}
pub struct Fut {
    /// harness-owned storage for what the future retains (the future itself is moved into a box)
    slots: *mut Slots,
    ready: bool,
    val: u32,
    star: bool,
}
unsafe impl Send for Fut {}
impl core::future::Future for Fut {
    type Output = u32;
    fn poll(mut self: core::pin::Pin<&mut Self>, cx: &mut core::task::Context<'_>) -> core::task::Poll<u32> {
        let star = self.star;
        let (ready, val) = (self.ready, self.val);
        let me = unsafe { &mut *self.slots };
        let w = cx.waker();
        let a = w.clone();
        // chain (b cloned from a) or star (b cloned from the borrowed waker): fixed per harness
        let b = if star { w.clone() } else { a.clone() };
        let mut ha = H::new(a, 3);
        let mut hb = H::new(b, 3);
        if nd::any() {
            w.wake_by_ref();
            me.wakes += 1;
        }
        phase(&mut ha, 0, &mut me.wakes);
        phase(&mut hb, 0, &mut me.wakes);
        phase(&mut hb, 1, &mut me.wakes);
        phase(&mut ha, 1, &mut me.wakes);
        me.ha = Some(ha);
        me.hb = Some(hb);
        if ready {
            core::task::Poll::Ready(val)
        } else {
            core::task::Poll::Pending
        }
    }
}

/// The waker crosses the boundary through the GENERATED Future glue (`trait_obj!(.. as Future)`, poll).
fn future_object(star: bool) {
    use cglue::*;
    use core::future::Future;
    with_orig!(cnt, orig, {
        let ready: bool = nd::any();
        let val: u32 = nd::any();
        nd::cover!(ready, "poll returns Ready");
        nd::cover!(!ready, "poll returns Pending");
        let mut slots = Slots { ha: None, hb: None, wakes: 0 };
        let fut = Fut { slots: &mut slots, ready, val, star };
        {
            let mut obj = trait_obj!(fut as Future);
            let mut cx = core::task::Context::from_waker(&orig);
            let r = core::pin::Pin::new(&mut obj).poll(&mut cx);
            match r {
                core::task::Poll::Ready(v) => assert!(ready && v == val, "output crosses the boundary unaltered"),
                core::task::Poll::Pending => assert!(!ready),
            }
        }
        let mut wakes = slots.wakes;
        let mut ha = slots.ha.take().unwrap();
        let mut hb = slots.hb.take().unwrap();
        nd::cover!(ha.alive || hb.alive, "a waker retained after the poll");
        phase(&mut ha, 2, &mut wakes);
        phase(&mut hb, 2, &mut wakes);
        let c = unsafe { &*(&cnt as *const Cnt) };
        finish(c, wakes, &[&ha, &hb]);
        assert!(c.clones == if star { 2 } else { 1 });
    });
}

nd::harnesses! {
    #[kani::unwind(3)] fn c19_future_object_chain2() { future_object(false) }
    #[kani::unwind(3)] fn c19_future_object_star2() { future_object(true) }

    /// chain of 2: a = w.clone(); b = a.clone(); 3 phases (last after the poll).
    #[kani::unwind(3)]
    fn c19_chain2() {
        with_orig!(cnt, orig, {
            let mut wakes = 0u32;
            let (mut ha, mut hb) = {
                let cw = CRefWaker::from(&orig);
                cw.with_waker(|w| {
                    let a = w.clone();
                    let b = a.clone();
                    let mut ha = H::new(a, 3);
                    let mut hb = H::new(b, 3);
                    if nd::any() { w.wake_by_ref(); wakes += 1; }
                    phase(&mut ha, 0, &mut wakes); phase(&mut hb, 0, &mut wakes);
                    phase(&mut hb, 1, &mut wakes); phase(&mut ha, 1, &mut wakes);
                    (ha, hb)
                })
            };
            nd::cover!(ha.alive && hb.alive, "both handles retained after the poll");
            nd::cover!(!ha.alive && hb.alive && hb.by_wake, "clone outlives its parent and is woken by value after the poll");
            if nd::any() { phase(&mut ha, 2, &mut wakes); phase(&mut hb, 2, &mut wakes); }
            else { phase(&mut hb, 2, &mut wakes); phase(&mut ha, 2, &mut wakes); }
            let c = unsafe { &*(&cnt as *const Cnt) };
            finish(c, wakes, &[&ha, &hb]);
            assert!(c.clones == 1, "one clone of the caller's waker per clone of the borrowed view");
        });
    }

    /// star of 2: a = w.clone(); b = w.clone().
    #[kani::unwind(3)]
    fn c19_star2() {
        with_orig!(cnt, orig, {
            let mut wakes = 0u32;
            let (mut ha, mut hb) = {
                let cw = CRefWaker::from(&orig);
                cw.with_waker(|w| {
                    let a = w.clone();
                    let b = w.clone();
                    let mut ha = H::new(a, 3);
                    let mut hb = H::new(b, 3);
                    phase(&mut ha, 0, &mut wakes); phase(&mut hb, 0, &mut wakes);
                    if nd::any() { w.wake_by_ref(); wakes += 1; }
                    phase(&mut hb, 1, &mut wakes); phase(&mut ha, 1, &mut wakes);
                    (ha, hb)
                })
            };
            phase(&mut ha, 2, &mut wakes); phase(&mut hb, 2, &mut wakes);
            let c = unsafe { &*(&cnt as *const Cnt) };
            finish(c, wakes, &[&ha, &hb]);
            assert!(c.clones == 2);
        });
    }

    /// chain of 3: a = w.clone(); b = a.clone(); c = b.clone(); 3 phases.
    #[kani::unwind(5)]
    fn c19_chain3() {
        with_orig!(cnt, orig, {
            let mut wakes = 0u32;
            let (mut ha, mut hb, mut hc) = {
                let cw = CRefWaker::from(&orig);
                cw.with_waker(|w| {
                    let a = w.clone();
                    let b = a.clone();
                    let c = b.clone();
                    let mut ha = H::new(a, 3);
                    let mut hb = H::new(b, 3);
                    let mut hc = H::new(c, 3);
                    phase(&mut ha, 0, &mut wakes); phase(&mut hb, 0, &mut wakes); phase(&mut hc, 0, &mut wakes);
                    if nd::any() { w.wake_by_ref(); wakes += 1; }
                    phase(&mut hc, 1, &mut wakes); phase(&mut hb, 1, &mut wakes); phase(&mut ha, 1, &mut wakes);
                    (ha, hb, hc)
                })
            };
            nd::cover!(hc.alive && !ha.alive && !hb.alive, "only the grandchild retained");
            phase(&mut hb, 2, &mut wakes); phase(&mut ha, 2, &mut wakes); phase(&mut hc, 2, &mut wakes);
            let c = unsafe { &*(&cnt as *const Cnt) };
            finish(c, wakes, &[&ha, &hb, &hc]);
            assert!(c.clones == 1);
        });
    }

    /// mixed tree of 3: a = w.clone(); b = a.clone(); c = w.clone(); a clone made AFTER a sibling
    /// ended (late clone from a surviving handle).
    #[kani::unwind(3)]
    fn c19_mixed3_late_clone() {
        with_orig!(cnt, orig, {
            let mut wakes = 0u32;
            let (mut hb, mut hc) = {
                let cw = CRefWaker::from(&orig);
                cw.with_waker(|w| {
                    let a = w.clone();
                    let c = w.clone();
                    let mut ha = H::new(a, 2u8);
                    let mut hc = H::new(c, 3);
                    // b is cloned from a while a is certainly alive, then a may end at once
                    let b = Waker::clone(&ha.w);
                    let mut hb = H::new(b, 3);
                    phase(&mut ha, 0, &mut wakes);
                    phase(&mut hb, 0, &mut wakes); phase(&mut hc, 0, &mut wakes);
                    phase(&mut ha, 1, &mut wakes);
                    assert!(!ha.alive);
                    phase(&mut hc, 1, &mut wakes); phase(&mut hb, 1, &mut wakes);
                    (hb, hc)
                })
            };
            phase(&mut hb, 2, &mut wakes); phase(&mut hc, 2, &mut wakes);
            let c = unsafe { &*(&cnt as *const Cnt) };
            finish(c, wakes, &[&hb, &hc]);
            assert!(c.clones == 2);
        });
    }

    /// clone, END, clone again inside one poll: a = w.clone(); a ends (drop or wake, symbolic);
    /// b = w.clone() - the second clone is a fresh, owning handle.
    #[kani::unwind(3)]
    fn c19_clone_end_clone() {
        with_orig!(cnt, orig, {
            let mut wakes = 0u32;
            let mut hb = {
                let cw = CRefWaker::from(&orig);
                cw.with_waker(|w| {
                    let a = w.clone();
                    let mut ha = H { w: ManuallyDrop::new(a), alive: true, end: 0, by_wake: nd::any() };
                    phase(&mut ha, 0, &mut wakes);
                    assert!(!ha.alive);
                    let b = w.clone();
                    let mut hb = H::new(b, 3);
                    if nd::any() { w.wake_by_ref(); wakes += 1; }
                    phase(&mut hb, 0, &mut wakes);
                    phase(&mut hb, 1, &mut wakes);
                    hb
                })
            };
            phase(&mut hb, 2, &mut wakes);
            let c = unsafe { &*(&cnt as *const Cnt) };
            finish(c, wakes, &[&hb]);
            assert!(c.clones == 2);
        });
    }

    /// The caller's OWN waker goes away right after the poll while foreign handles are retained: they keep
    /// the clones alive, and nothing is touched after the last of them is gone (floor = 0).
    #[kani::unwind(3)]
    fn c19_chain2_caller_waker_dropped_first() {
        let mut cnt = Cnt { live: 1, wakes: 0, bad: false, clones: 0 };
        let orig = unsafe { Waker::from_raw(RawWaker::new(&mut cnt as *mut Cnt as *const (), &VT)) };
        let mut wakes = 0u32;
        let (mut ha, mut hb) = {
            let cw = CRefWaker::from(&orig);
            cw.with_waker(|w| {
                let a = w.clone();
                let b = a.clone();
                let mut ha = H::new(a, 3);
                let mut hb = H::new(b, 3);
                phase(&mut ha, 0, &mut wakes); phase(&mut hb, 0, &mut wakes);
                phase(&mut hb, 1, &mut wakes); phase(&mut ha, 1, &mut wakes);
                (ha, hb)
            })
        };
        drop(orig); // w_drop: live -= 1
        nd::cover!(ha.alive || hb.alive, "a foreign handle outlives the caller's waker");
        if nd::any() { phase(&mut ha, 2, &mut wakes); phase(&mut hb, 2, &mut wakes); }
        else { phase(&mut hb, 2, &mut wakes); phase(&mut ha, 2, &mut wakes); }
        let c = unsafe { &*(&cnt as *const Cnt) };
        assert!(!ha.alive && !hb.alive);
        assert!(!c.bad, "nothing touches the original after all handles (the caller's included) are gone");
        assert!(c.live == 0 && c.wakes == wakes);
    }

    /// The caller's waker has NO data pointer (null data, state in a static behind the vtable): chain of 2 as above. Its
    /// clones are released exactly once all the same - a waker's data word is opaque to everyone but its vtable.
    #[kani::unwind(3)]
    fn c19_chain2_waker_without_data_pointer() {
        unsafe { SCNT = Cnt { live: 1, wakes: 0, bad: false, clones: 0 }; }
        let orig = unsafe { Waker::from_raw(RawWaker::new(core::ptr::null(), &VT)) };
        let mut wakes = 0u32;
        let (mut ha, mut hb) = {
            let cw = CRefWaker::from(&orig);
            cw.with_waker(|w| {
                let a = w.clone();
                let b = a.clone();
                let mut ha = H::new(a, 2);
                let mut hb = H::new(b, 2);
                if nd::any() { w.wake_by_ref(); wakes += 1; }
                phase(&mut ha, 0, &mut wakes); phase(&mut hb, 0, &mut wakes);
                (ha, hb)
            })
        };
        nd::cover!(ha.alive && hb.alive, "both handles retained after the poll");
        if nd::any() { phase(&mut ha, 1, &mut wakes); phase(&mut hb, 1, &mut wakes); }
        else { phase(&mut hb, 1, &mut wakes); phase(&mut ha, 1, &mut wakes); }
        let c = unsafe { &*core::ptr::addr_of!(SCNT) };
        finish(c, wakes, &[&ha, &hb]);
        assert!(c.clones == 1, "one clone of the caller's waker per clone of the borrowed view");
        core::mem::forget(orig);
    }

    /// No clone at all: only wake_by_ref on the borrowed waker, any number (0..=3) of times.
    #[kani::unwind(5)]
    fn c19_borrowed_only() {
        with_orig!(cnt, orig, {
            let n = nd::range(0, 3);
            {
                let cw = CRefWaker::from(&orig);
                cw.with_waker(|w| {
                    let mut i = 0;
                    while i < n { w.wake_by_ref(); i += 1; }
                });
            }
            let c = unsafe { &*(&cnt as *const Cnt) };
            assert!(!c.bad && c.live == 1 && c.clones == 0 && c.wakes == n as u32);
        });
    }

    /// Negative twin: claims a by-value wake does not wake the original.
    #[kani::unwind(3)]
    fn c19_negative_twin() {
        with_orig!(cnt, orig, {
            {
                let cw = CRefWaker::from(&orig);
                cw.with_waker(|w| { w.clone().wake(); });
            }
            let c = unsafe { &*(&cnt as *const Cnt) };
            assert!(c.wakes == 0, "negative twin: expected to fail");
        });
    }
}
