//! C15 - callbacks and iterators deliver every item once, in order, until told to stop.
//!
//! Symbolic: items, item count (0..=N), the stop position, how many items are pulled through a
//! CIterator before it is dropped. Enumerated: sink kinds {closure, &mut Vec, Extend collection},
//! drivers {feed_into, feed_into_mut, Extend::extend, call}.

use crate::common::*;
use cglue::callback::{Callbackable, FeedCallback, FromExtend, OpaqueCallback};
use cglue::iter::{AsCIterator, CIterator};

/// Closure sink that stops at a symbolic index, driven by each of the three feeding drivers.
fn feed_closure<const N: usize>(driver: u8) {
    let items: [u8; N] = nd::any();
    let n = nd::range(0, N);
    let stop_at = nd::range(0, N + 1);
    nd::cover!(stop_at >= n && n == N, "never stops");
    nd::cover!(stop_at == 0 && n > 1, "stops at the first item");
    nd::cover!(n > 2 && stop_at + 1 == n, "stops at the last item");
    nd::cover!(n > 2 && stop_at > 0 && stop_at + 1 < n, "stops in the middle");
    nd::cover!(n == 0, "empty sequence");
    let mut seen = [0u8; N];
    let mut cnt = 0usize;
    let expect = if stop_at < n { stop_at + 1 } else { n };
    let ret = {
        let mut f = |v: u8| {
            seen[cnt] = v;
            cnt += 1;
            cnt - 1 != stop_at
        };
        let mut cb: OpaqueCallback<u8> = (&mut f).into();
        // the source either knows its exact length or promises nothing (`filter`: size_hint() == (0, Some(n)))
        let no_hint: bool = nd::any();
        match (driver, no_hint) {
            (0, false) => Some(items[..n].iter().copied().feed_into(cb)),
            (0, true) => Some(items[..n].iter().copied().filter(|_| true).feed_into(cb)),
            (1, false) => Some(items[..n].iter().copied().feed_into_mut(&mut cb)),
            (1, true) => Some(items[..n].iter().copied().filter(|_| true).feed_into_mut(&mut cb)),
            (_, false) => {
                cb.extend(items[..n].iter().copied());
                None
            }
            (_, true) => {
                cb.extend(items[..n].iter().copied().filter(|_| true));
                None
            }
        }
    };
    if let Some(r) = ret {
        assert!(r == expect, "reports the number of items offered");
    }
    assert!(cnt == expect, "invoked once per item until the first false");
    let mut j = 0;
    while j < expect {
        assert!(seen[j] == items[j], "in order, unaltered");
        j += 1;
    }
}

/// Collecting sinks hold exactly the offered items.
fn feed_collect<const N: usize>(sink: u8) {
    let items: [u8; N] = nd::any();
    let n = nd::range(0, N);
    nd::cover!(n == N, "full sequence");
    nd::cover!(n == 0, "empty sequence");
    // the collecting vector may already hold something (results of an earlier call): collecting APPENDS
    let mut v: Vec<u8> = Vec::with_capacity(N + 1);
    let pre: bool = nd::any();
    let pre_val: u8 = nd::any();
    nd::cover!(pre, "the vector already holds an element");
    if pre {
        v.push(pre_val);
    }
    let off = if pre { 1 } else { 0 };
    let ret = match sink {
        0 => {
            let cb: OpaqueCallback<u8> = (&mut v).into();
            items[..n].iter().copied().feed_into(cb)
        }
        _ => {
            let cb = v.from_extend();
            items[..n].iter().copied().feed_into(cb)
        }
    };
    assert!(ret == n);
    assert!(v.len() == n + off, "what was collected before is kept");
    if pre {
        assert!(v[0] == pre_val);
    }
    let mut j = 0;
    while j < n {
        assert!(v[j + off] == items[j]);
        j += 1;
    }
}

/// A source that is NOT fused: it follows a script of Some/None answers (an item may follow a None), then ends.
pub struct Script {
    pub plan: [Option<u8>; 5],
    pub calls: usize,
}
impl Script {
    pub fn nd() -> Script {
        let vals: [u8; 5] = nd::any();
        let some: [bool; 5] = nd::any();
        let mut plan = [None; 5];
        let mut i = 0;
        while i < 5 {
            if some[i] {
                plan[i] = Some(vals[i]);
            }
            i += 1;
        }
        Script { plan, calls: 0 }
    }
}
impl Iterator for Script {
    type Item = u8;
    fn next(&mut self) -> Option<u8> {
        let r = if self.calls < 5 { self.plan[self.calls] } else { None };
        self.calls += 1;
        r
    }
}

nd::harnesses! {
    #[kani::unwind(6)] fn c15_feed_into_closure_4() { feed_closure::<4>(0) }
    #[kani::unwind(6)] fn c15_feed_into_mut_closure_4() { feed_closure::<4>(1) }
    #[kani::unwind(6)] fn c15_extend_closure_4() { feed_closure::<4>(2) }
    #[kani::unwind(8)] fn c15_feed_into_closure_6() { feed_closure::<6>(0) }
    #[kani::unwind(8)] fn c15_feed_into_mut_closure_6() { feed_closure::<6>(1) }
    #[kani::unwind(8)] fn c15_extend_closure_6() { feed_closure::<6>(2) }
    #[kani::unwind(6)] fn c15_collect_vec_3() { feed_collect::<3>(0) }
    #[kani::unwind(6)] fn c15_collect_extend_3() { feed_collect::<3>(1) }
    #[kani::unwind(7)] fn c15_collect_vec_4() { feed_collect::<4>(0) }
    #[kani::unwind(7)] fn c15_collect_extend_4() { feed_collect::<4>(1) }

    /// A BORROWED source fed into a callback that stops early: the feed takes from the source exactly the items it
    /// offered - the item after the stop is still the source's next item (nothing is pulled and discarded), for
    /// `(&mut it).feed_into`, `feed_into_mut` and a `CIterator` view of the source.
    #[kani::unwind(7)]
    fn c15_feed_borrowed_source_takes_only_what_it_offers() {
        let items: [u8; 4] = nd::any();
        let n = nd::range(0, 4);
        let stop_at = nd::range(0, 4);
        let way: u8 = nd::any();
        nd::assume(way < 3);
        nd::cover!(stop_at + 1 < n, "stopped before the last item");
        let mut it = items[..n].iter().copied();
        let mut cnt = 0usize;
        let offered = {
            let mut f = |_v: u8| { cnt += 1; cnt - 1 != stop_at };
            let mut cb: OpaqueCallback<u8> = (&mut f).into();
            match way {
                0 => (&mut it).feed_into(cb),
                1 => (&mut it).feed_into_mut(&mut cb),
                _ => it.as_citer().feed_into(cb),
            }
        };
        let expect = if stop_at < n { stop_at + 1 } else { n };
        assert!(offered == expect && cnt == expect, "reports the number of items offered");
        let next = it.next();
        assert!(next == if expect < n { Some(items[expect]) } else { None }, "the source continues with the item after the last one offered");
    }

    /// The same callback fed TWICE: a stop verdict ends one feed, not the callback - the next feed invokes
    /// the closure again, per item.
    #[kani::unwind(6)]
    fn c15_feed_twice_same_callback() {
        let a: [u8; 3] = nd::any();
        let b: [u8; 3] = nd::any();
        let na = nd::range(0, 3);
        let nb = nd::range(0, 3);
        let stop_val: u8 = nd::any();
        let mut seen = [0u8; 6];
        let mut cnt = 0usize;
        let (r1, r2) = {
            let mut f = |v: u8| {
                seen[cnt] = v;
                cnt += 1;
                v != stop_val
            };
            let mut cb: OpaqueCallback<u8> = (&mut f).into();
            let r1 = a[..na].iter().copied().feed_into_mut(&mut cb);
            let r2 = b[..nb].iter().copied().feed_into_mut(&mut cb);
            (r1, r2)
        };
        // reference: offered = up to and including the first item equal to stop_val
        let mut e1 = 0;
        while e1 < na { e1 += 1; if a[e1 - 1] == stop_val { break; } }
        let mut e2 = 0;
        while e2 < nb { e2 += 1; if b[e2 - 1] == stop_val { break; } }
        nd::cover!(e1 < na && e2 > 0, "first feed stopped early, second feed still delivers");
        assert!(r1 == e1 && r2 == e2, "each feed reports what it offered");
        assert!(cnt == e1 + e2, "the closure is invoked for every offered item of BOTH feeds");
        let mut j = 0;
        while j < e1 { assert!(seen[j] == a[j]); j += 1; }
        let mut j = 0;
        while j < e2 { assert!(seen[e1 + j] == b[j]); j += 1; }
    }

    /// A collecting Vec sink takes EVERY offered item, also beyond its current capacity.
    #[kani::unwind(6)]
    fn c15_collect_vec_beyond_capacity() {
        let items: [u8; 3] = nd::any();
        let n = nd::range(0, 3);
        let cap = nd::range(0, 1);
        nd::cover!(n > cap + 1, "more items than spare capacity");
        let mut v: Vec<u8> = Vec::with_capacity(cap);
        let ret = {
            let cb: OpaqueCallback<u8> = (&mut v).into();
            items[..n].iter().copied().feed_into(cb)
        };
        assert!(ret == n && v.len() == n, "every item collected");
        let mut j = 0;
        while j < n { assert!(v[j] == items[j]); j += 1; }
    }

    /// Direct `call` (both the inherent method and the Callbackable trait) forwards the argument
    /// and the closure's verdict.
    fn c15_call_forwards() {
        let a: u64 = nd::any();
        let verdict: bool = nd::any();
        let mut got = 0u64;
        let mut calls = 0u32;
        {
            let mut f = |v: u64| {
                got = v;
                calls += 1;
                verdict
            };
            let mut cb: OpaqueCallback<u64> = (&mut f).into();
            assert!(cb.call(a) == verdict);
            assert!(Callbackable::call(&mut cb, !a) == verdict);
            let mut r = &mut cb;
            assert!(Callbackable::call(&mut r, a ^ 1) == verdict);
        }
        assert!(calls == 3 && got == a ^ 1);
    }

    /// Drop-counted items: every item is dropped exactly once whether it was consumed by the sink
    /// (before or at the stop) or left in the source.
    #[kani::unwind(6)]
    fn c15_items_dropped_once() {
        reset();
        let n = nd::range(0, 3);
        let stop_at = nd::range(0, 4);
        nd::cover!(stop_at < n, "stopped early with items left in the source");
        let mut src: [Option<Pay>; 3] = [None, None, None];
        let mut i = 0;
        while i < n {
            src[i] = Some(Pay::new(i as u32));
            i += 1;
        }
        let mut cnt = 0usize;
        let mut ok_order = true;
        {
            let mut f = |p: Pay| {
                if p.val != cnt as u32 || !p.is_live() {
                    ok_order = false;
                }
                cnt += 1;
                cnt - 1 != stop_at
            };
            let cb: OpaqueCallback<Pay> = (&mut f).into();
            let ret = src.iter_mut().filter_map(|s| s.take()).feed_into(cb);
            let _ = ret;
        }
        let expect = if stop_at < n { stop_at + 1 } else { n };
        assert!(ok_order);
        assert!(cnt == expect);
        assert!(drops() == expect as u32, "consumed items dropped once by the sink");
        assert!(live() == (n - expect) as i32, "items not offered are still in the source");
        drop(src);
        assert!(live() == 0 && drops() == n as u32);
    }

    /// Heap variant: Vec source of drop-counted items into a Vec sink; ownership moves, nothing
    /// is dropped on the way, leak check on.
    #[kani::unwind(6)]
    fn c15_vec_to_vec_moves() {
        reset();
        let n = nd::range(0, 3);
        let mut src: Vec<Pay> = Vec::with_capacity(3);
        let mut i = 0;
        while i < n {
            src.push(Pay::new(10 + i as u32));
            i += 1;
        }
        let mut dst: Vec<Pay> = Vec::with_capacity(3);
        let ret = {
            let cb: OpaqueCallback<Pay> = (&mut dst).into();
            src.into_iter().feed_into(cb)
        };
        assert!(ret == n && dst.len() == n);
        assert!(drops() == 0 && live() == n as i32);
        let mut j = 0;
        while j < n {
            assert!(dst[j].val == 10 + j as u32 && dst[j].is_live());
            j += 1;
        }
        drop(dst);
        assert!(drops() == n as u32 && live() == 0);
    }

    /// CIterator yields exactly the items of the wrapped iterator, in order, then None (twice).
    #[kani::unwind(7)]
    fn c15_citer_same_items_4() {
        let items: [u64; 4] = nd::any();
        let n = nd::range(0, 4);
        nd::cover!(n == 0, "empty source");
        nd::cover!(n == 4, "full source");
        let via_trait: bool = nd::any();
        let mut it = items[..n].iter().copied();
        let mut ci = if via_trait { it.as_citer() } else { CIterator::from(&mut it) };
        let mut j = 0;
        while j < n {
            assert!(ci.next() == Some(items[j]));
            j += 1;
        }
        assert!(ci.next().is_none(), "ends when the source ends");
        assert!(ci.next().is_none());
    }

    /// Interleaving: pull k items through the wrapper, drop it, continue on the source: the
    /// concatenation is the original sequence (no look-ahead consumed or lost).
    #[kani::unwind(7)]
    fn c15_citer_interleave_4() {
        let items: [u8; 4] = nd::any();
        let n = nd::range(0, 4);
        let k = nd::range(0, 4);
        let k2 = nd::range(0, 4);
        nd::cover!(k > 0 && k < n, "wrapper dropped mid-way");
        nd::cover!(k > n, "wrapper polled past the end");
        let mut it = items[..n].iter().copied();
        let mut pos = 0usize;
        {
            let mut ci = CIterator::new(&mut it);
            let mut j = 0;
            while j < k {
                let r = ci.next();
                if pos < n {
                    assert!(r == Some(items[pos]));
                    pos += 1;
                } else {
                    assert!(r.is_none());
                }
                j += 1;
            }
        }
        // direct use of the source, then a second wrapper
        let mut j = 0;
        while j < k2 {
            let r = it.next();
            if pos < n {
                assert!(r == Some(items[pos]));
                pos += 1;
            } else {
                assert!(r.is_none());
            }
            j += 1;
        }
        {
            let mut ci = CIterator::new(&mut it);
            while pos < n {
                assert!(ci.next() == Some(items[pos]));
                pos += 1;
            }
            assert!(ci.next().is_none());
        }
    }

    /// Drop-counted items through a CIterator: never produces or drops a value the source did
    /// not yield; items not pulled stay owned by the source.
    #[kani::unwind(6)]
    fn c15_citer_items_owned_once() {
        reset();
        let n = nd::range(0, 3);
        let k = nd::range(0, 4);
        nd::cover!(k < n, "items left in the source");
        nd::cover!(k > n, "polled past the end");
        let mut src: [Option<Pay>; 3] = [None, None, None];
        let mut i = 0;
        while i < n {
            src[i] = Some(Pay::new(i as u32));
            i += 1;
        }
        let mut pulled = 0usize;
        {
            let mut it = src.iter_mut().filter_map(|s| s.take());
            let mut ci = CIterator::new(&mut it);
            let mut j = 0;
            while j < k {
                match ci.next() {
                    Some(p) => {
                        assert!(pulled < n && p.val == pulled as u32 && p.is_live());
                        pulled += 1;
                        drop(p);
                    }
                    None => assert!(pulled == n),
                }
                j += 1;
            }
        }
        assert!(pulled == if k < n { k } else { n });
        assert!(drops() == pulled as u32);
        assert!(live() == (n - pulled) as i32);
        drop(src);
        assert!(live() == 0 && made() == n as u32 && drops() == n as u32);
    }

    /// Unbounded source (`repeat`): the wrapper yields as many items as are pulled, never ends
    /// on its own. (A zero-sized source such as `iter::empty()` is NOT driven here: CIterator::new
    /// forms a `&mut c_void` - one byte - to a zero-sized object, which Kani flags as an invalid
    /// dereference inside `<*mut c_void>::as_mut`; that is reported separately in DESIGN.md, it is
    /// not an observable violation of C15.)
    #[kani::unwind(5)]
    fn c15_citer_unbounded_source() {
        let k = nd::range(0, 3);
        let x: u8 = nd::any();
        let mut it = core::iter::repeat(x);
        let mut ci = CIterator::new(&mut it);
        let mut j = 0;
        while j < k {
            assert!(ci.next() == Some(x));
            j += 1;
        }
    }

    /// The provided Iterator methods on a CIterator (whether the library overrides them or not) agree with their
    /// definition in terms of `next`: nth / skip / count / last / step_by over drop-counted items, also when they run
    /// past the end of the source - every item is delivered or dropped exactly once, nothing else is dropped.
    #[kani::unwind(7)]
    fn c15_citer_provided_methods_owned_once() {
        reset();
        let n = nd::range(0, 3);
        let k = nd::range(0, 4);
        let op: u8 = nd::any();
        nd::assume(op < 5);
        nd::cover!(op == 0 && k >= n && n > 0, "nth past the end of a non-empty source");
        nd::cover!(op == 0 && k < n, "nth inside the source");
        let mut src: [Option<Pay>; 3] = [None, None, None];
        let mut i = 0;
        while i < n {
            src[i] = Some(Pay::new(i as u32));
            i += 1;
        }
        {
            let mut it = src.iter_mut().filter_map(|s| s.take());
            let mut ci = CIterator::new(&mut it);
            match op {
                0 => {
                    let r = ci.nth(k);
                    assert!(r.is_some() == (k < n));
                    if let Some(p) = &r { assert!(p.val == k as u32 && p.is_live()); }
                    let taken = if k < n { k + 1 } else { n };
                    assert!(live() == (n - taken) as i32 + if k < n { 1 } else { 0 }, "skipped items dropped once, the rest still owned by the source");
                }
                1 => {
                    let mut sk = ci.skip(k);
                    let r = sk.next();
                    assert!(r.is_some() == (k < n));
                    if let Some(p) = &r { assert!(p.val == k as u32 && p.is_live()); }
                }
                2 => assert!(ci.count() == n && live() == 0),
                3 => {
                    let r = ci.last();
                    assert!(r.is_some() == (n > 0));
                    if let Some(p) = &r { assert!(p.val == (n - 1) as u32 && p.is_live()); }
                    assert!(live() == if n > 0 { 1 } else { 0 });
                }
                _ => {
                    let mut st = ci.step_by(2);
                    let a = st.next();
                    let b = st.next();
                    assert!(a.is_some() == (n > 0) && b.is_some() == (n > 2));
                    if let Some(p) = &b { assert!(p.val == 2 && p.is_live()); }
                }
            }
        }
        drop(src);
        assert!(live() == 0 && drops() == made(), "every item destroyed exactly once");
    }

    /// Zero-sized items are items: a collector holds as many as were offered (Vec and Extend collectors).
    #[kani::unwind(6)]
    fn c15_collect_zero_sized_items() {
        let n = nd::range(0, 3);
        let via_extend: bool = nd::any();
        let items = [(); 3];
        let mut v: Vec<()> = Vec::new();
        let ret = if via_extend {
            let cb = v.from_extend();
            items[..n].iter().copied().feed_into(cb)
        } else {
            let cb: OpaqueCallback<()> = (&mut v).into();
            items[..n].iter().copied().feed_into(cb)
        };
        assert!(ret == n && v.len() == n, "the collection holds exactly the offered items");
    }

    /// A source that is not fused: the wrapper answers every poll with exactly what the source answers to that poll
    /// (an item after a None is not lost), and polls the source once per poll.
    #[kani::unwind(8)]
    fn c15_citer_not_fused_source() {
        let mut src = Script::nd();
        let plan = src.plan;
        nd::cover!(plan[1].is_none() && plan[2].is_some(), "an item follows a None");
        let polls = nd::range(0, 6);
        {
            let mut ci = CIterator::new(&mut src);
            let mut j = 0;
            while j < polls {
                let r = ci.next();
                assert!(r == if j < 5 { plan[j] } else { None }, "yields exactly what the wrapped iterator yields");
                j += 1;
            }
        }
        assert!(src.calls == polls, "one poll of the source per poll of the wrapper");
    }

    /// Negative twin: claims the callback is invoked for every item even after returning false.
    #[kani::unwind(6)]
    fn c15_negative_twin() {
        let items: [u8; 3] = nd::any();
        let mut cnt = 0usize;
        {
            let mut f = |_v: u8| {
                cnt += 1;
                false
            };
            let cb: OpaqueCallback<u8> = (&mut f).into();
            let _ = items.iter().copied().feed_into(cb);
        }
        assert!(cnt == 3, "negative twin: expected to fail");
    }
}
