#[cfg(not(kani))]
fn main() {
    nd::replay_main(rt::TABLES);
}
#[cfg(kani)]
fn main() {}
