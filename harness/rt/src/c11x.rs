//! C11 - additions for element types and operations the generated step harnesses do not cover:
//! zero-sized elements WITH a destructor, and `Clone::clone_from` (whatever its implementation).
#![allow(clippy::all)]

use crate::common::*;
use cglue::vec::CVec;

static mut ZD_MADE: u32 = 0;
static mut ZD_DROPS: u32 = 0;
struct Zd;
impl Zd {
    fn new() -> Zd {
        unsafe { ZD_MADE += 1 };
        Zd
    }
}
impl Drop for Zd {
    fn drop(&mut self) {
        unsafe { ZD_DROPS += 1 };
    }
}

nd::harnesses! {
    /// Zero-sized elements with a destructor: pushing moves the value in (nothing is destroyed), popping / removing hands it
    /// out, dropping the vector destroys what is left - each element exactly once.
    #[kani::unwind(6)]
    fn c11x_zero_sized_elements_with_destructor() {
        unsafe { ZD_MADE = 0; ZD_DROPS = 0; }
        let k = nd::range(0, 3);
        let pops = nd::range(0, 3);
        nd::cover!(k == 3 && pops == 1, "three pushed, one popped");
        {
            let mut v: CVec<Zd> = CVec::from(Vec::new());
            let mut i = 0;
            while i < k {
                v.push(Zd::new());
                assert!(unsafe { ZD_DROPS } == 0, "a push destroys nothing");
                assert!(v.len() == i + 1);
                i += 1;
            }
            let mut p = 0;
            let mut handed_out = 0u32;
            let mut rem = k;
            while p < pops {
                let e = v.pop();
                assert!(e.is_some() == (rem > 0));
                assert!(unsafe { ZD_DROPS } == handed_out, "handing an element out does not destroy it");
                if e.is_some() {
                    rem -= 1;
                    handed_out += 1;
                }
                drop(e);
                assert!(unsafe { ZD_DROPS } == handed_out && v.len() == rem);
                p += 1;
            }
            assert!(unsafe { ZD_DROPS } == handed_out);
        }
        assert!(unsafe { ZD_DROPS == ZD_MADE }, "every element dropped exactly once");
    }

    /// `clone_from`: the destination ends up equal to the source; every element the destination held before is
    /// destroyed exactly once, every clone lives in the destination - for destinations longer and shorter than the source.
    #[kani::unwind(6)]
    fn c11x_clone_from_drops_the_surplus() {
        reset();
        let ns = nd::range(0, 2);
        let nd_ = nd::range(0, 2);
        nd::cover!(nd_ > ns, "destination longer than the source");
        nd::cover!(nd_ < ns, "destination shorter than the source");
        {
            let mut sv: Vec<Pay> = Vec::with_capacity(2);
            let mut i = 0;
            while i < ns { sv.push(Pay::new(10 + i as u32)); i += 1; }
            let mut dv: Vec<Pay> = Vec::with_capacity(2);
            let mut i = 0;
            while i < nd_ { dv.push(Pay::new(20 + i as u32)); i += 1; }
            let src: CVec<Pay> = CVec::from(sv);
            let mut dst: CVec<Pay> = CVec::from(dv);
            assert!(live() == (ns + nd_) as i32);
            dst.clone_from(&src);
            assert!(dst.len() == ns && src.len() == ns);
            assert!(live() == 2 * ns as i32, "the old elements of the destination are gone, the clones are alive");
            let mut i = 0;
            while i < ns {
                assert!(dst[i].val == 10 + i as u32 && src[i].val == 10 + i as u32);
                i += 1;
            }
        }
        assert!(live() == 0 && drops() == made(), "every element dropped exactly once");
    }
}
