//! C05 (narrowed) - memory owned by a value is always released by the module that allocated it.
//!
//! Two-role model inside one build. The PLUGIN role (this file) fabricates values through their C
//! view only, with ITS OWN function pointers - which count calls and manage a static arena - and
//! with instance/data pointers into NON-HEAP memory. The HOST role then uses only cglue's public
//! API. Assertions: every release / clone / growth reached the plugin's function exactly the
//! expected number of times with the right arguments; and because the memory is not a heap
//! object, CBMC's free/realloc preconditions fail if cglue ever touches it with the host
//! allocator. What this cannot encode - different compilers, optimisation levels, layout seeds,
//! real dynamic loading - is outside the claim.

use crate::common::from_view;
use cglue::boxed::{CBox, CSliceBox};
use cglue::callback::{FeedCallback, OpaqueCallback};
use cglue::iter::CIterator;
use cglue::slice::CSliceMut;
use cglue::trait_group::Opaquable;
use cglue::vec::CVec;
use core::mem::MaybeUninit;

// ---------------------------------------------------------------- CBox
#[repr(C)]
struct CBoxView {
    instance: *mut u32,
    drop_fn: Option<unsafe extern "C" fn(&mut u32)>,
}
static mut BOX_DROPS: u32 = 0;
static mut BOX_ARG: usize = 0;
unsafe extern "C" fn plugin_box_drop(p: &mut u32) {
    BOX_DROPS += 1;
    BOX_ARG = p as *mut u32 as usize;
}

// ---------------------------------------------------------------- CVec
#[repr(C)]
struct CVecView {
    data: *mut u64,
    len: usize,
    capacity: usize,
    drop_fn: Option<unsafe extern "C" fn(*mut u64, usize, usize)>,
    reserve_fn: extern "C" fn(&mut CVec<u64>, usize) -> usize,
}
const ARENA: usize = 8;
static mut VEC_ARENA_PTR: *mut u64 = core::ptr::null_mut();
static mut VEC_RESERVES: u32 = 0;
static mut VEC_DROPS: u32 = 0;
static mut VEC_DROP_ARGS: (usize, usize, usize) = (0, 0, 0);
static mut VEC_BAD: bool = false;
/// slots of the arena the plugin's allocator may hand out (the 8-slot arena of the insertion harnesses, or the large one)
static mut VEC_ARENA_LEN: usize = ARENA;
const BIG_ARENA: usize = 40;
/// The plugin's allocator: "grows" inside its arena, exactly to the requested size.
extern "C" fn plugin_vec_reserve(v: &mut CVec<u64>, additional: usize) -> usize {
    unsafe {
        VEC_RESERVES += 1;
        let view = &mut *(v as *mut CVec<u64> as *mut CVecView);
        if view.data != VEC_ARENA_PTR {
            VEC_BAD = true;
        }
        let want = view.len + additional;
        if want > view.capacity {
            if want > VEC_ARENA_LEN {
                VEC_BAD = true;
            } else {
                view.capacity = want;
            }
        }
        view.capacity
    }
}
unsafe extern "C" fn plugin_vec_drop(data: *mut u64, len: usize, cap: usize) {
    VEC_DROPS += 1;
    VEC_DROP_ARGS = (data as usize, len, cap);
}

// ---------------------------------------------------------------- callback / iterator
#[repr(C)]
struct CallbackView {
    context: *mut CbCtx,
    func: extern "C" fn(&mut CbCtx, u8) -> bool,
}
struct CbCtx {
    seen: [u8; 4],
    n: usize,
    stop_at: usize,
    magic: u32,
}
extern "C" fn plugin_cb(ctx: &mut CbCtx, item: u8) -> bool {
    assert!(ctx.magic == 0xC0FFEE, "callback invoked with the plugin's own context");
    ctx.seen[ctx.n] = item;
    ctx.n += 1;
    ctx.n - 1 != ctx.stop_at
}

#[repr(C)]
struct IterView {
    iter: *mut ItState,
    func: extern "C" fn(&mut ItState, &mut MaybeUninit<u16>) -> i32,
}
struct ItState {
    next: u16,
    end: u16,
    calls: u32,
    magic: u32,
}
extern "C" fn plugin_next(st: &mut ItState, out: &mut MaybeUninit<u16>) -> i32 {
    assert!(st.magic == 0xBEEF, "next invoked with the plugin's own state");
    st.calls += 1;
    if st.next < st.end {
        unsafe { out.as_mut_ptr().write(st.next) };
        st.next += 1;
        0
    } else {
        // deliberately a code other than 1: any non-zero value means "no item"
        7
    }
}

// ---------------------------------------------------------------- CSliceBox
static mut SB_DROPS: u32 = 0;
static mut SB_ARG: (usize, usize) = (0, 0);
unsafe extern "C" fn plugin_slicebox_drop(s: &mut CSliceMut<'_, u16>) {
    SB_DROPS += 1;
    SB_ARG = (s.as_ptr() as usize, s.len());
}
#[repr(C)]
struct CSliceBoxView {
    data: *mut u16,
    len: usize,
    drop_fn: Option<unsafe extern "C" fn(&mut CSliceMut<'static, u16>)>,
}

/// A vector made by the plugin over its arena: every growth goes through the plugin's
/// reserve function, contents behave like a Vec, and the buffer is released exactly once
/// through the plugin's drop function with (data, len, capacity).
fn foreign_cvec<const IDX: usize>() {
    unsafe { VEC_RESERVES = 0; VEC_DROPS = 0; VEC_BAD = false; VEC_ARENA_LEN = ARENA; }
    let a: u64 = nd::any();
    let b: u64 = nd::any();
    // the plugin's arena is stack memory: freeing or reallocating it with the host allocator
    // fails CBMC's "free called for stack-allocated object" check
    let mut arena = [0u64; ARENA];
    arena[0] = a;
    arena[1] = b;
    unsafe { VEC_ARENA_PTR = arena.as_mut_ptr(); }
    let view = CVecView { data: arena.as_mut_ptr(), len: 2, capacity: 2,
                          drop_fn: Some(plugin_vec_drop), reserve_fn: plugin_vec_reserve };
    let mut v: CVec<u64> = unsafe { from_view(view) };
    assert!(v.len() == 2 && v.capacity() == 2 && v[0] == a && v[1] == b);
    let x: u64 = nd::any();
    // the insertion index is ENUMERATED (one harness each): CBMC 6.11 mis-models memmove with a
    // symbolic offset/length on a stack array of u64 (spurious counterexample that does not replay)
    let idx = IDX;
    v.insert(idx, x); // no spare capacity: must grow through the plugin
    unsafe { assert!(VEC_RESERVES == 1, "growth went through the creator's reserve function") };
    assert!(v.len() == 3 && v.capacity() >= 3);
    assert!(v[idx] == x);
    assert!(v[if idx == 0 { 1 } else { 0 }] == a);
    assert!(v[if idx == 2 { 1 } else { 2 }] == b);
    {
        // a clone made by the host is a host vector: it does not carry the plugin's functions, and growing
        // or freeing it never reaches the plugin
        let (r0, d0) = unsafe { (VEC_RESERVES, VEC_DROPS) };
        let mut c = v.clone();
        assert!(c.len() == 3 && c[idx] == x);
        assert!(c.as_ptr() as usize != v.as_ptr() as usize);
        c.push(1);
        c.push(2);
        assert!(c.len() == 5 && c[4] == 2);
        drop(c);
        unsafe { assert!(VEC_RESERVES == r0 && VEC_DROPS == d0, "the plugin is never asked to grow or free host memory") };
    }
    let op: u8 = nd::any();
    nd::assume(op < 4);
    nd::cover!(op == 0, "push after growth");
    nd::cover!(op == 2, "remove");
    let mut expect_len = 3;
    let before = unsafe { VEC_RESERVES };
    match op {
        0 => { let y: u64 = nd::any(); v.push(y); expect_len = 4; assert!(v[3] == y);
               unsafe { assert!(VEC_RESERVES == before + 1) }; }
        1 => { assert!(v.pop().is_some()); expect_len = 2; }
        2 => { let r = v.remove(0); assert!(r == if IDX == 0 { x } else { a }); expect_len = 2; }
        _ => { v.reserve(2); unsafe { assert!(VEC_RESERVES == before + 1) }; assert!(v.capacity() - v.len() >= 2); }
    }
    assert!(v.len() == expect_len);
    let cap = v.capacity();
    let data = v.as_ptr() as usize;
    unsafe { assert!(VEC_DROPS == 0) };
    drop(v);
    unsafe {
        assert!(!VEC_BAD);
        assert!(VEC_DROPS == 1, "released exactly once through the creator's drop function");
        assert!(VEC_DROP_ARGS == (data, expect_len, cap), "... with (data, len, capacity)");
        assert!(data == VEC_ARENA_PTR as usize, "the buffer never left the plugin's arena");
    }
}


nd::harnesses! {
    /// A box made by the plugin over plugin (non-heap) memory: the host can read and write it,
    /// convert it to opaque form and drop it; the release happens exactly once, through the
    /// plugin's function, with the instance pointer.
    fn c05_foreign_cbox() {
        unsafe { BOX_DROPS = 0; BOX_ARG = 0; }
        let mut cell: u32 = nd::any();
        let init = cell;
        let addr = &mut cell as *mut u32;
        let view = CBoxView { instance: addr, drop_fn: Some(plugin_box_drop) };
        let mut b: CBox<u32> = unsafe { from_view(view) };
        assert!(*b == init);
        let w: u32 = nd::any();
        *b = w;
        let opaque: bool = nd::any();
        nd::cover!(opaque, "dropped in opaque form");
        nd::cover!(!opaque, "dropped in concrete form");
        unsafe { assert!(BOX_DROPS == 0) };
        if opaque {
            let o = b.into_opaque();
            unsafe { assert!(BOX_DROPS == 0) };
            drop(o);
        } else {
            drop(b);
        }
        unsafe {
            assert!(BOX_DROPS == 1, "released exactly once through the creator's function");
            assert!(BOX_ARG == addr as usize, "... with the instance pointer");
        }
        assert!(unsafe { *addr } == w, "host writes landed in plugin memory");
    }

    /// A BORROWED foreign box (no drop function, as the C++ header's `CBox(T *instance)` constructor makes
    /// them): dropping it on the host side releases nothing - in particular not through the host allocator.
    fn c05_foreign_cbox_without_drop_fn() {
        unsafe { BOX_DROPS = 0; }
        let mut cell: u32 = nd::any();
        let init = cell;
        let view = CBoxView { instance: &mut cell, drop_fn: None };
        let b: CBox<u32> = unsafe { from_view(view) };
        assert!(*b == init);
        if nd::any() {
            drop(b.into_opaque());
        } else {
            drop(b);
        }
        unsafe { assert!(BOX_DROPS == 0) };
        assert!(cell == init, "the borrowed value is still there and untouched");
    }

    #[kani::unwind(10)] fn c05_foreign_cvec_i0() { foreign_cvec::<0>() }
    #[kani::unwind(10)] fn c05_foreign_cvec_i1() { foreign_cvec::<1>() }
    #[kani::unwind(10)] fn c05_foreign_cvec_i2() { foreign_cvec::<2>() }

    /// A foreign vector of ANY shape (capacity 0..=40 and length 0..=capacity both symbolic, over a 40-slot plugin arena):
    /// two symbolic operations that need no growth (pop, push into spare room, reserve of what is already there, a read)
    /// never reach the plugin's allocator nor the host's, leave buffer address and capacity alone - whatever the ratio
    /// of length to capacity - and the release goes once through the plugin's function with (data, len, capacity).
    #[kani::unwind(4)]
    fn c05_foreign_cvec_any_shape_no_growth() {
        unsafe { VEC_RESERVES = 0; VEC_DROPS = 0; VEC_BAD = false; VEC_ARENA_LEN = BIG_ARENA; }
        let mut arena = [0u64; BIG_ARENA];
        let cap = nd::range(0, BIG_ARENA);
        let len = nd::range(0, BIG_ARENA);
        nd::assume(len <= cap);
        let last: u64 = nd::any();
        if len > 0 { arena[len - 1] = last; }
        unsafe { VEC_ARENA_PTR = arena.as_mut_ptr(); }
        let view = CVecView { data: arena.as_mut_ptr(), len, capacity: cap,
                              drop_fn: Some(plugin_vec_drop), reserve_fn: plugin_vec_reserve };
        let mut v: CVec<u64> = unsafe { from_view(view) };
        let data = v.as_ptr() as usize;
        nd::cover!(cap >= 16 && len <= cap / 4, "large and mostly empty");
        nd::cover!(cap >= 32 && len == cap, "large and full");
        let mut l = len;
        let mut top = last; // value of the element at l-1 (tracked only while known)
        let mut known = len > 0;
        let mut k = 0;
        while k < 2 {
            let op: u8 = nd::any();
            nd::assume(op < 4);
            match op {
                0 => {
                    let r = v.pop();
                    if l == 0 { assert!(r.is_none()); } else {
                        if known { assert!(r == Some(top), "pop returns the last element"); }
                        l -= 1;
                        known = false;
                    }
                }
                1 => {
                    if l < cap {
                        let y: u64 = nd::any();
                        v.push(y);
                        l += 1; top = y; known = true;
                    }
                }
                2 => {
                    let spare = cap - l;
                    v.reserve(if spare > 3 { 3 } else { spare });
                }
                _ => {
                    if l > 0 && known { assert!(v[l - 1] == top); }
                }
            }
            assert!(v.len() == l);
            assert!(v.capacity() == cap, "an operation that needs no growth leaves the capacity alone");
            assert!(v.as_ptr() as usize == data, "... and the buffer where the plugin put it");
            unsafe { assert!(VEC_RESERVES == 0, "no growth requested: the plugin's allocator is not called") };
            k += 1;
        }
        unsafe { assert!(VEC_DROPS == 0) };
        drop(v);
        unsafe {
            assert!(!VEC_BAD);
            assert!(VEC_DROPS == 1, "released exactly once through the creator's drop function");
            assert!(VEC_DROP_ARGS == (data, l, cap), "... with (data, len, capacity)");
        }
    }

    /// A boxed slice made by the plugin.
    fn c05_foreign_cslicebox() {
        unsafe { SB_DROPS = 0; }
        let mut arr: [u16; 3] = nd::any();
        let orig = arr;
        let addr = arr.as_mut_ptr();
        let view = CSliceBoxView { data: addr, len: 3, drop_fn: Some(plugin_slicebox_drop) };
        let mut sb: CSliceBox<u16> = unsafe { from_view(view) };
        assert!(sb.len() == 3 && sb[0] == orig[0] && sb[2] == orig[2]);
        let w: u16 = nd::any();
        sb[1] = w;
        drop(sb);
        unsafe {
            assert!(SB_DROPS == 1);
            assert!(SB_ARG == (addr as usize, 3));
        }
        assert!(unsafe { *addr.add(1) } == w);
    }

    /// A callback made by the plugin (context + trampoline): feeding from the host invokes the
    /// plugin's function with the plugin's context, per item, until it says stop.
    #[kani::unwind(6)]
    fn c05_foreign_callback() {
        let stop_at = nd::range(0, 5);
        let mut ctx = CbCtx { seen: [0; 4], n: 0, stop_at, magic: 0xC0FFEE };
        let items: [u8; 4] = nd::any();
        let n = nd::range(0, 4);
        let ret = {
            let view = CallbackView { context: &mut ctx, func: plugin_cb };
            let cb: OpaqueCallback<u8> = unsafe { from_view(view) };
            items[..n].iter().copied().feed_into(cb)
        };
        let expect = if stop_at < n { stop_at + 1 } else { n };
        assert!(ret == expect && ctx.n == expect);
        let mut j = 0;
        while j < expect {
            assert!(ctx.seen[j] == items[j]);
            j += 1;
        }
    }

    /// An iterator made by the plugin (state + next function with its own end code).
    #[kani::unwind(6)]
    fn c05_foreign_iterator() {
        let start: u16 = nd::any();
        let cnt = nd::range(0, 3) as u16;
        nd::assume(start < 1000);
        let mut st = ItState { next: start, end: start + cnt, calls: 0, magic: 0xBEEF };
        {
            let view = IterView { iter: &mut st, func: plugin_next };
            let mut it: CIterator<u16> = unsafe { from_view(view) };
            let mut k = 0u16;
            while k < cnt {
                assert!(it.next() == Some(start + k));
                k += 1;
            }
            assert!(it.next().is_none(), "any non-zero code ends the iteration");
        }
        assert!(st.calls == cnt as u32 + 1);
    }

    /// Negative twin: claims the host never calls the plugin's drop function.
    fn c05_negative_twin() {
        unsafe { BOX_DROPS = 0; }
        let mut cell: u32 = 1;
        let view = CBoxView { instance: &mut cell, drop_fn: Some(plugin_box_drop) };
        let b: CBox<u32> = unsafe { from_view(view) };
        drop(b);
        unsafe { assert!(BOX_DROPS == 0, "negative twin: expected to fail") };
    }
}

