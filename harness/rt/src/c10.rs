//! C10 - CArc and CArcSome behave as Arc and Option<Arc> (sequential histories).
//!
//! Observer: one retained std `Arc<Pay>` (strong_count) plus the payload's drop counter.
//! Symbolic: the operation chosen at every step of a k-step history over a pool of handle slots,
//! and the payload value. Enumerated: the slot pool shape (2 typed slots + 1 opaque slot).
//! Out: threads (Kani is sequential).

use crate::common::*;
use cglue::arc::{CArc, CArcSome};
use cglue::trait_group::{c_void, Opaquable};
use std::sync::Arc;

fn val_of(s: &CArc<Pay>) -> Option<u32> {
    s.as_ref().map(|p| p.val)
}

struct Pool {
    s0: CArc<Pay>,
    s1: CArc<Pay>,
    o: CArc<c_void>,
    live: usize,
}

/// One symbolic operation on the pool. Every branch keeps `live` = number of non-empty handles.
fn step(p: &mut Pool, base: &Arc<Pay>, v: u32) {
    let op: u8 = nd::any();
    nd::assume(op < 12);
    nd::cover!(op == 10 && p.s0.as_ref().is_none() && p.s1.as_ref().is_some(), "clone_from an empty handle into a non-empty one");
    nd::cover!(op == 0 && p.s0.as_ref().is_some() && p.s1.as_ref().is_none(), "clone of a non-empty handle");
    nd::cover!(op == 0 && p.s0.as_ref().is_none(), "clone of an empty handle");
    nd::cover!(op == 5 && p.s1.as_ref().is_some(), "CArcSome clone");
    nd::cover!(op == 7 && p.s1.as_ref().is_some() && p.o.as_ref().is_none(), "into_opaque of a non-empty handle");
    match op {
        0 => {
            if p.s1.as_ref().is_none() {
                p.s1 = p.s0.clone();
                if p.s0.as_ref().is_some() {
                    p.live += 1;
                    assert!(p.s1.as_ref().is_some());
                } else {
                    assert!(p.s1.as_ref().is_none(), "empty clones to empty");
                }
            }
        }
        1 => {
            if p.s1.as_ref().is_none() {
                let had = p.s0.as_ref().is_some();
                p.s1 = p.s0.take();
                assert!(p.s0.as_ref().is_none(), "take leaves the source empty");
                assert!(p.s1.as_ref().is_some() == had);
            }
        }
        2 => {
            if p.s1.as_ref().is_some() {
                p.live -= 1;
            }
            p.s1 = CArc::default();
        }
        3 => {
            let had = p.s1.as_ref().is_some();
            let t: Option<CArcSome<Pay>> = core::mem::take(&mut p.s1).transpose();
            assert!(t.is_some() == had);
            if let Some(some) = &t {
                assert!(some.val == v);
                assert!(some.as_ref().val == v);
            }
            p.s1 = t.into();
            assert!(p.s1.as_ref().is_some() == had);
        }
        4 => core::mem::swap(&mut p.s0, &mut p.s1),
        5 => {
            if let Some(some) = core::mem::take(&mut p.s1).transpose() {
                let c2 = some.clone();
                assert!(Arc::strong_count(base) == 1 + p.live + 1);
                drop(some);
                assert!(Arc::strong_count(base) == 1 + p.live);
                p.s1 = c2.transpose();
            }
        }
        6 => {
            if let Some(some) = core::mem::take(&mut p.s1).transpose() {
                let a: Arc<Pay> = unsafe { some.into_arc() };
                assert!(Arc::strong_count(base) == 1 + p.live);
                assert!(Arc::ptr_eq(&a, base));
                p.s1 = CArc::from(Some(a));
            } else {
                p.s1 = CArc::from(None::<Arc<Pay>>);
                assert!(p.s1.as_ref().is_none());
            }
        }
        7 => {
            if p.o.as_ref().is_none() {
                p.o = p.s1.take().into_opaque();
            }
        }
        8 => {
            // used only through the opaque type: clone and release
            let c = p.o.clone();
            let n = if p.o.as_ref().is_some() { 1 } else { 0 };
            assert!(c.as_ref().is_some() == (n == 1));
            assert!(Arc::strong_count(base) == 1 + p.live + n);
            drop(c);
        }
        11 => {
            // converting an already opaque handle again is the identity: same emptiness, count unchanged
            let had = p.o.as_ref().is_some();
            p.o = core::mem::take(&mut p.o).into_opaque();
            assert!(p.o.as_ref().is_some() == had);
        }
        10 => {
            // Clone::clone_from (whatever its implementation): the target releases what it held and becomes a copy
            if p.s1.as_ref().is_some() {
                p.live -= 1;
            }
            if p.s0.as_ref().is_some() {
                p.live += 1;
            }
            p.s1.clone_from(&p.s0);
            assert!(p.s1.as_ref().is_some() == p.s0.as_ref().is_some(), "clone_from: empty clones to empty, non-empty to non-empty");
        }
        _ => {
            if p.o.as_ref().is_some() {
                p.live -= 1;
            }
            p.o = CArc::default();
        }
    }
    assert!(Arc::strong_count(base) == 1 + p.live, "strong count == live handles (+ observer)");
    assert!(drops() == 0, "shared value alive while any handle is");
    if p.s0.as_ref().is_some() {
        assert!(val_of(&p.s0) == Some(v));
    }
    if p.s1.as_ref().is_some() {
        assert!(val_of(&p.s1) == Some(v));
    }
}

fn pool_history<const K: usize>() {
    reset();
    let v: u32 = nd::any();
    let base = Arc::new(Pay::new(v));
    let mut p = Pool { s0: CArc::from(base.clone()), s1: CArc::default(), o: CArc::default(), live: 1 };
    assert!(Arc::strong_count(&base) == 2);
    let mut k = 0;
    while k < K {
        step(&mut p, &base, v);
        k += 1;
    }
    let Pool { s0, s1, o, .. } = p;
    drop(s0);
    drop(o);
    drop(s1);
    assert!(Arc::strong_count(&base) == 1);
    assert!(drops() == 0);
    drop(base);
    assert!(drops() == 1 && live() == 0, "dropped exactly when the last handle goes");
}

nd::harnesses! {
    #[kani::unwind(4)] fn c10_pool_k2() { pool_history::<2>() }
    #[kani::unwind(5)] fn c10_pool_k3() { pool_history::<3>() }
    #[kani::unwind(6)] fn c10_pool_k4() { pool_history::<4>() }

    /// A handle built from an Arc that also has a Weak observer: the last handle still releases the last strong reference
    /// (the value is dropped, the Weak can no longer be upgraded).
    #[kani::unwind(4)]
    fn c10_last_handle_with_weak_observer() {
        reset();
        let v: u32 = nd::any();
        let arc = Arc::new(Pay::new(v));
        let weak = Arc::downgrade(&arc);
        let a: CArc<Pay> = CArc::from(arc);
        let b = a.clone();
        assert!(Arc::strong_count(&weak.upgrade().unwrap()) == 3);
        drop(a);
        assert!(drops() == 0 && weak.upgrade().is_some());
        drop(b);
        assert!(drops() == 1 && live() == 0, "the value is dropped with the last handle");
        assert!(weak.upgrade().is_none() && weak.strong_count() == 0);
    }

    /// From a ZERO-SIZED value with a destructor: dropped exactly when the last handle goes.
    #[kani::unwind(4)]
    fn c10_zero_sized_value_with_destructor() {
        static mut ZD_DROPS: u32 = 0;
        struct Zd;
        impl Drop for Zd {
            fn drop(&mut self) {
                unsafe { ZD_DROPS += 1 };
            }
        }
        unsafe { ZD_DROPS = 0 };
        let some_first: bool = nd::any();
        let a: CArc<Zd> = if some_first { CArcSome::from(Zd).transpose() } else { CArc::from(Zd) };
        let b = a.clone();
        assert!(unsafe { ZD_DROPS } == 0 && a.as_ref().is_some() && b.as_ref().is_some());
        if nd::any() { drop(a); assert!(unsafe { ZD_DROPS } == 0); drop(b); } else { drop(b); assert!(unsafe { ZD_DROPS } == 0); drop(a); }
        assert!(unsafe { ZD_DROPS } == 1, "a zero-sized value is dropped once, with the last handle");
    }

    /// From a value (no retained observer): the value is dropped exactly when the last of the
    /// handles derived by clone/take/transpose goes, in either drop order.
    #[kani::unwind(4)]
    fn c10_from_value_last_handle_drops() {
        reset();
        let v: u32 = nd::any();
        let some_first: bool = nd::any();
        let order: bool = nd::any();
        nd::cover!(order, "original dropped first");
        nd::cover!(!order, "clone dropped first");
        let a: CArc<Pay> = if some_first { CArcSome::from(Pay::new(v)).transpose() } else { CArc::from(Pay::new(v)) };
        assert!(live() == 1 && drops() == 0);
        let mut b = a.clone();
        let c = b.take();
        assert!(b.as_ref().is_none());
        drop(b);
        assert!(drops() == 0);
        assert!(val_of(&a) == Some(v) && val_of(&c) == Some(v));
        // same allocation behind both
        assert!(a.as_ref().map(|p| p as *const Pay) == c.as_ref().map(|p| p as *const Pay));
        if order {
            drop(a);
            assert!(drops() == 0);
            assert!(val_of(&c) == Some(v));
            drop(c);
        } else {
            drop(c);
            assert!(drops() == 0);
            assert!(val_of(&a) == Some(v));
            drop(a);
        }
        assert!(drops() == 1 && live() == 0);
    }

    /// Empty CArc: default / From<None> / take of empty all clone to empty and drop as a no-op.
    fn c10_empty_is_inert() {
        reset();
        let which: u8 = nd::any();
        nd::assume(which < 3);
        let mut e: CArc<Pay> = match which {
            0 => CArc::default(),
            1 => CArc::from(None::<Arc<Pay>>),
            _ => CArc::from(None::<CArcSome<Pay>>),
        };
        assert!(e.as_ref().is_none());
        let c = e.clone();
        assert!(c.as_ref().is_none());
        let t = e.take();
        assert!(t.as_ref().is_none());
        assert!(t.transpose().is_none());
        let o = c.into_opaque();
        assert!(o.as_ref().is_none());
        let o2 = o.clone();
        drop(o);
        drop(o2);
        drop(e);
        assert!(made() == 0 && drops() == 0);
    }

    /// "Cloning and dropping always run the functions of the module that created the allocation": a handle
    /// fabricated through the C view, with foreign clone/drop functions over NON-HEAP memory that hand out a
    /// DISTINCT handle per reference (as the ABI permits): every clone goes through the creator's clone
    /// function and keeps the handle it returned, every handle is released exactly once through the creator's
    /// drop function.
    #[kani::unwind(8)]
    fn c10_foreign_functions_used() {
        #[repr(C)]
        struct CArcView {
            instance: *const u32,
            clone_fn: Option<unsafe extern "C" fn(*const u32) -> *const u32>,
            drop_fn: Option<unsafe extern "C" fn(*const u32)>,
        }
        const SLOTS: usize = 6;
        static mut CELLS: [u32; SLOTS] = [0; SLOTS];
        static mut HANDED: usize = 0;
        static mut RELEASED: [u8; SLOTS] = [0; SLOTS];
        static mut CLONES: u32 = 0;
        static mut BAD: bool = false;
        unsafe fn slot_of(p: *const u32) -> usize {
            let base = CELLS.as_ptr() as usize;
            let a = p as usize;
            if a < base || a >= base + SLOTS * 4 || (a - base) % 4 != 0 {
                BAD = true;
                return 0;
            }
            (a - base) / 4
        }
        unsafe extern "C" fn f_clone(p: *const u32) -> *const u32 {
            let s = slot_of(p);
            if s >= HANDED || RELEASED[s] != 0 {
                BAD = true;
            }
            CLONES += 1;
            if HANDED >= SLOTS {
                BAD = true;
                return p;
            }
            let n = HANDED;
            HANDED += 1;
            CELLS.as_ptr().add(n)
        }
        unsafe extern "C" fn f_drop(p: *const u32) {
            let s = slot_of(p);
            if s >= HANDED {
                BAD = true;
            }
            RELEASED[s] += 1;
        }
        let val: u32 = nd::any();
        unsafe {
            CELLS = [val; SLOTS];
            HANDED = 1;
            RELEASED = [0; SLOTS];
            CLONES = 0;
            BAD = false;
        }
        assert!(core::mem::size_of::<CArcView>() == core::mem::size_of::<CArc<u32>>());
        let view = CArcView { instance: unsafe { CELLS.as_ptr() }, clone_fn: Some(f_clone), drop_fn: Some(f_drop) };
        let a: CArc<u32> = unsafe { from_view(view) };
        let path: u8 = nd::any();
        nd::assume(path < 3);
        let n = nd::range(0, 2);
        let mut clones = 0u32;
        let b = a.clone();
        clones += 1;
        assert!(b.as_ref().map(|r| *r) == Some(val));
        assert!(b.as_ref().map(|r| r as *const u32 as usize) == Some(unsafe { CELLS.as_ptr().add(1) } as usize), "the clone keeps the handle its creator returned");
        let c = match path {
            0 => b,
            1 => {
                let some = b.transpose().unwrap();
                let s2 = some.clone();
                clones += 1;
                assert!(*s2 == val);
                drop(some);
                s2.transpose()
            }
            _ => {
                let o = b.into_opaque();
                let o2 = o.clone();
                clones += 1;
                drop(o);
                unsafe { core::mem::transmute::<CArc<c_void>, CArc<u32>>(o2) }
            }
        };
        let mut i = 0;
        while i < n {
            let t = c.clone();
            clones += 1;
            drop(t);
            i += 1;
        }
        drop(a);
        drop(c);
        unsafe {
            assert!(!BAD, "foreign functions were called with handles the creator handed out, none after its release");
            assert!(CLONES == clones, "every clone went through the creator's clone function");
            assert!(HANDED as u32 == 1 + clones);
            let mut k = 0;
            while k < SLOTS {
                assert!(RELEASED[k] == if k < HANDED { 1 } else { 0 }, "every handle released exactly once through the creator's drop function");
                k += 1;
            }
        }
    }

    /// Negative twin: claims a clone does not change the strong count.
    #[kani::unwind(4)]
    fn c10_negative_twin() {
        reset();
        let base = Arc::new(Pay::new(1));
        let a: CArc<Pay> = CArc::from(base.clone());
        let b = a.clone();
        assert!(Arc::strong_count(&base) == 2, "negative twin: expected to fail");
        core::mem::forget(a);
        core::mem::forget(b);
        core::mem::forget(base);
    }
}
