#![allow(clippy::all)]
#![allow(static_mut_refs)]
#![allow(dead_code)]

pub mod common;

pub mod c12;
pub mod c13;
pub mod c14;

pub const TABLES: &[&[(&str, fn())]] = &[c12::TABLE, c13::TABLE, c14::TABLE];
