#![allow(clippy::all)]
#![allow(static_mut_refs)]
#![allow(dead_code)]

pub mod common;

pub mod c05;
pub mod c10;
pub mod c11;
pub mod c11x;
pub mod c12;
pub mod c13;
pub mod c14;
pub mod c15;
pub mod c16;
pub mod c16_views_gen;
pub mod c19;

pub const TABLES: &[&[(&str, fn())]] = &[c05::TABLE, c10::TABLE, c11::TABLE, c11x::TABLE, c12::TABLE, c13::TABLE, c14::TABLE, c15::TABLE, c16::TABLE, c19::TABLE];
