//! C13 - integer result codes: zero means success and the output is initialised.
//!
//! Symbolic: Ok/Err, payload values, the pre-filled sentinel in the output slot, every i32 OS
//! error code. Enumerated: shipped error types {(), fmt::Error, io::Error} and the non-OS
//! io::ErrorKind constructors used for the "never encodes to 0" clause.

use crate::common::*;
use cglue::result::*;
use core::mem::MaybeUninit;
use core::num::NonZeroI32;

nd::harnesses! {
    /// Encode: code == 0 <=> Ok; Ok writes the value; Err leaves the slot untouched (a symbolic
    /// sentinel pre-filled through a raw pointer is still there). Decode reads the slot only on 0.
    fn c13_encode_decode_u64() {
        let ok: bool = nd::any();
        let v: u64 = nd::any();
        let sentinel: u64 = nd::any();
        nd::cover!(ok, "Ok");
        nd::cover!(!ok, "Err");
        let r: Result<u64, ()> = if ok { Ok(v) } else { Err(()) };
        let mut out = MaybeUninit::<u64>::uninit();
        unsafe { out.as_mut_ptr().write(sentinel) };
        let code = into_int_out_result(r, &mut out);
        assert!((code == 0) == ok);
        let slot = unsafe { out.as_ptr().read() };
        if ok {
            assert!(slot == v);
        } else {
            assert!(code == 1);
            assert!(slot == sentinel, "slot untouched on Err");
        }
        assert!(into_int_result(r) == code);
        assert!(IntResult::into_int_result(r) == code);
        let mut out2 = MaybeUninit::<u64>::uninit();
        unsafe { out2.as_mut_ptr().write(sentinel) };
        assert!(IntResult::into_int_out_result(r, &mut out2) == code);
        assert!(unsafe { out2.as_ptr().read() } == if ok { v } else { sentinel });
        let back: Result<u64, ()> = unsafe { from_int_result(code, out) };
        assert!(back == r);
        let e: Result<(), ()> = from_int_result_empty(code);
        assert!(e.is_ok() == ok);
    }

    /// Decode never reads the slot for a non-zero code: the slot is left *uninitialised* and
    /// holds a type whose bytes Kani would flag if they were read/dropped (a drop-counted Pay).
    fn c13_decode_reads_slot_only_on_zero() {
        reset();
        let code: i32 = nd::any();
        nd::cover!(code == 0, "zero");
        nd::cover!(code < 0, "negative code");
        if code == 0 {
            let mut slot = MaybeUninit::<Pay>::uninit();
            unsafe { slot.as_mut_ptr().write(Pay::new(5)) };
            let r: Result<Pay, ()> = unsafe { from_int_result(code, slot) };
            assert!(r.is_ok());
            assert!(live() == 1 && drops() == 0);
            drop(r);
            assert!(live() == 0 && drops() == 1);
        } else {
            let slot = MaybeUninit::<Pay>::uninit();
            let r: Result<Pay, ()> = unsafe { from_int_result(code, slot) };
            assert!(r.is_err());
            drop(r);
            assert!(live() == 0 && drops() == 0 && made() == 0);
        }
    }

    /// Droppable success payload: moved into the slot exactly once on Ok, dropped exactly once on
    /// neither path before the caller gets it; on Err nothing of type Pay is created or dropped.
    fn c13_payload_moved_once() {
        reset();
        let ok: bool = nd::any();
        let v: u32 = nd::any();
        let r: Result<Pay, ()> = if ok { Ok(Pay::new(v)) } else { Err(()) };
        let mut out = MaybeUninit::<Pay>::uninit();
        let code = into_int_out_result(r, &mut out);
        assert!((code == 0) == ok);
        if ok {
            assert!(live() == 1 && drops() == 0);
        } else {
            assert!(live() == 0 && drops() == 0);
        }
        let back: Result<Pay, ()> = unsafe { from_int_result(code, out) };
        match &back {
            Ok(p) => assert!(ok && p.val == v && p.is_live() && live() == 1 && drops() == 0),
            Err(()) => assert!(!ok),
        }
        drop(back);
        assert!(live() == 0);
        assert!(drops() == if ok { 1 } else { 0 });
        // result discarded by into_int_result: the payload is dropped exactly once
        let r2: Result<Pay, ()> = if ok { Ok(Pay::new(v)) } else { Err(()) };
        let c2 = into_int_result(r2);
        assert!((c2 == 0) == ok);
        assert!(live() == 0);
        assert!(drops() == if ok { 2 } else { 0 });
    }

    /// Shipped error types never encode to 0: () and fmt::Error.
    fn c13_unit_and_fmt_errors() {
        assert!(().into_int_err().get() != 0);
        assert!(core::fmt::Error.into_int_err().get() != 0);
        let code: i32 = nd::any();
        nd::assume(code != 0);
        let n = NonZeroI32::new(code).unwrap();
        let _: () = <() as IntError>::from_int_err(n);
        let _: core::fmt::Error = <core::fmt::Error as IntError>::from_int_err(n);
        let r: Result<u8, core::fmt::Error> = Err(core::fmt::Error);
        assert!(into_int_result(r) != 0);
        let e: Result<(), core::fmt::Error> = from_int_result_empty(code);
        assert!(e.is_err());
    }

    /// io::Error: for ALL i32 OS codes the encoding is non-zero, equals the code when the code is
    /// non-zero, and decoding gives back an OS error with the same code.
    fn c13_io_error_all_os_codes() {
        let code: i32 = nd::any();
        nd::cover!(code == 0, "OS code 0");
        nd::cover!(code < 0, "negative OS code");
        nd::cover!(code == i32::MIN, "i32::MIN");
        let e = std::io::Error::from_raw_os_error(code);
        let n = e.into_int_err().get();
        assert!(n != 0);
        if code != 0 {
            assert!(n == code);
        }
        let back = <std::io::Error as IntError>::from_int_err(NonZeroI32::new(n).unwrap());
        assert!(back.raw_os_error() == Some(n));
        // end to end through the Result encoding
        let r: Result<u32, std::io::Error> = Err(std::io::Error::from_raw_os_error(code));
        let mut out = MaybeUninit::<u32>::uninit();
        let c = into_int_out_result(r, &mut out);
        assert!(c != 0);
        if code != 0 {
            assert!(c == code);
        }
        let dec: Result<u32, std::io::Error> = unsafe { from_int_result(c, out) };
        match &dec {
            Ok(_) => assert!(false, "Err decoded as Ok"),
            Err(e) => assert!(e.raw_os_error() == Some(c)),
        }
        // io::Error's drop glue over a symbolic repr is the known explosion point
        core::mem::forget(back);
        core::mem::forget(dec);
    }

    /// Non-OS io errors (simple ErrorKind constructors) never encode to 0.
    fn c13_io_error_non_os() {
        let k: u8 = nd::any();
        nd::assume(k < 6);
        let kind = match k {
            0 => std::io::ErrorKind::NotFound,
            1 => std::io::ErrorKind::UnexpectedEof,
            2 => std::io::ErrorKind::Other,
            3 => std::io::ErrorKind::InvalidData,
            4 => std::io::ErrorKind::TimedOut,
            _ => std::io::ErrorKind::Interrupted,
        };
        let e = std::io::Error::from(kind);
        assert!(e.raw_os_error().is_none());
        let n = e.into_int_err().get();
        assert!(n != 0);
    }

    /// Negative twin: claims Err also encodes to 0.
    fn c13_negative_twin() {
        let ok: bool = nd::any();
        let r: Result<u64, ()> = if ok { Ok(1) } else { Err(()) };
        assert!(into_int_result(r) == 0, "negative twin: expected to fail");
    }
}
