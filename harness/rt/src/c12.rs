//! C12 - slice views and C option/result/tuple types are lossless.
//!
//! Symbolic: slice length (0..=N), every element, write index and value, variants, payloads.
//! Enumerated: element types {u8, u64, (), T3 = #[repr(C)] [u8;3]}, N = 4 (quick) / 5..6 (thorough).

use crate::common::*;
use cglue::option::COption;
use cglue::result::CResult;
use cglue::slice::{CSliceMut, CSliceRef};
use cglue::tuple::*;
use core::convert::TryFrom;
use nd::Nd;

#[repr(C)]
#[derive(Clone, Copy, PartialEq, Eq, Debug)]
pub struct T3(pub [u8; 3]);
impl Nd for T3 {
    fn nd() -> Self {
        T3(nd::any())
    }
}

#[derive(Clone, Copy, PartialEq, Eq, Debug)]
pub struct Zst;
impl Nd for Zst {
    fn nd() -> Self {
        Zst
    }
}

/// CSliceRef: construction (3 ways), accessors and all ways back give the same address, length
/// and elements.
fn sliceref_rt<T: Nd + Copy + PartialEq, const N: usize>() {
    let backing: [T; N] = nd::any();
    let len = nd::range(0, N);
    nd::cover!(len == 0, "empty slice");
    nd::cover!(len == N, "full slice");
    let s: &[T] = &backing[..len];
    let ways = [CSliceRef::from(s), CSliceRef::from_slice(s), s.into()];
    let mut w = 0;
    while w < 3 {
        let cs = ways[w];
        assert!(cs.len() == len);
        assert!(cs.is_empty() == (len == 0));
        assert!(cs.as_ptr() == s.as_ptr());
        let a = cs.as_slice();
        assert!(a.as_ptr() == s.as_ptr() && a.len() == len);
        let d: &[T] = &*cs;
        assert!(d.as_ptr() == s.as_ptr() && d.len() == len);
        let back: &[T] = cs.into();
        assert!(back.as_ptr() == s.as_ptr() && back.len() == len);
        let mut i = 0;
        while i < len {
            assert!(a[i] == backing[i]);
            assert!(d[i] == backing[i]);
            assert!(back[i] == backing[i]);
            i += 1;
        }
        w += 1;
    }
}

/// A slice of an align-1, 3-byte element type may start at ANY byte address: the three residues of the start address
/// modulo the element size are all exercised (byte offsets 0, 1, 2 into a byte buffer), for the shared and the mutable
/// view, with symbolic length and contents.
fn slices_at_any_address() {
    let mut bytes: [u8; 14] = nd::any();
    let orig = bytes;
    let len = nd::range(0, 4);
    nd::cover!(len == 4, "full slice");
    let mut off = 0;
    while off < 3 {
        let p = unsafe { bytes.as_mut_ptr().add(off) } as *mut T3;
        {
            let s: &[T3] = unsafe { core::slice::from_raw_parts(p as *const T3, len) };
            let cs = CSliceRef::from(s);
            let a = cs.as_slice();
            assert!(cs.as_ptr() == p as *const T3 && cs.len() == len, "same address and length");
            assert!(a.as_ptr() == p as *const T3 && a.len() == len, "same address and length through as_slice");
            let d: &[T3] = &*cs;
            assert!(d.as_ptr() == p as *const T3 && d.len() == len);
            let back: &[T3] = cs.into();
            assert!(back.as_ptr() == p as *const T3 && back.len() == len);
            let mut i = 0;
            while i < len {
                assert!(a[i].0[0] == orig[off + 3 * i] && a[i].0[2] == orig[off + 3 * i + 2]);
                i += 1;
            }
        }
        {
            let s: &mut [T3] = unsafe { core::slice::from_raw_parts_mut(p, len) };
            let mut cm = CSliceMut::from(s);
            assert!(cm.as_ptr() == p as *const T3 && cm.len() == len);
            {
                let a = cm.as_slice();
                assert!(a.as_ptr() == p as *const T3 && a.len() == len);
            }
            {
                let m = cm.as_slice_mut();
                assert!(m.as_ptr() == p as *const T3 && m.len() == len);
            }
        }
        {
            let s: &mut [T3] = unsafe { core::slice::from_raw_parts_mut(p, len) };
            let cm = CSliceMut::from(s);
            let back: &mut [T3] = cm.into();
            assert!(back.as_ptr() == p as *const T3 && back.len() == len);
        }
        off += 1;
    }
}

/// CSliceMut: same identities, and a write through each mutable way at a symbolic index lands in
/// the original buffer at that index and nowhere else.
fn slicemut_rt<T: Nd + Copy + PartialEq, const N: usize>() {
    let orig: [T; N] = nd::any();
    let mut backing = orig;
    let len = nd::range(0, N);
    let idx: usize = nd::any();
    let val: T = nd::any();
    let way: u8 = nd::any();
    nd::assume(way < 3);
    nd::cover!(len == 0, "empty slice");
    nd::cover!(len == N && idx == N - 1, "write at last index of a full slice");
    {
        let s: &mut [T] = &mut backing[..len];
        // address of the slice that is handed over (for zero-sized elements the address of the
        // array itself is not a meaningful reference point)
        let base = s.as_ptr();
        let mut cs = CSliceMut::from(s);
        assert!(cs.len() == len);
        assert!(cs.is_empty() == (len == 0));
        assert!(cs.as_ptr() == base);
        assert!(cs.as_mut_ptr() as *const T == base);
        {
            let r = CSliceRef::from(&cs);
            assert!(r.as_ptr() == base && r.len() == len);
        }
        {
            let m2: CSliceMut<T> = CSliceMut::from(&mut cs);
            assert!(m2.as_ptr() == base && m2.len() == len);
        }
        {
            let a = cs.as_slice();
            assert!(a.as_ptr() == base && a.len() == len);
        }
        if idx < len {
            match way {
                0 => {
                    let d: &mut [T] = &mut *cs;
                    assert!(d.as_ptr() == base && d.len() == len);
                    d[idx] = val;
                }
                1 => {
                    let d = cs.as_slice_mut();
                    assert!(d.as_ptr() == base && d.len() == len);
                    d[idx] = val;
                }
                _ => {
                    let d: &mut [T] = cs.into();
                    assert!(d.as_ptr() == base && d.len() == len);
                    d[idx] = val;
                }
            }
        } else {
            let d: &[T] = cs.into();
            assert!(d.as_ptr() == base && d.len() == len);
        }
    }
    let mut i = 0;
    while i < N {
        if i == idx && idx < len {
            assert!(backing[i] == val);
        } else {
            assert!(backing[i] == orig[i]);
        }
        i += 1;
    }
}

/// The checked `&str` conversions accept exactly the byte strings the independent RFC 3629
/// acceptor accepts, for all byte strings of length <= N, through all three checked conversions;
/// an accepted string has the same address and length.
fn utf8_decision<const N: usize>() {
    let mut bytes: [u8; N] = nd::any();
    let len = nd::range(0, N);
    let base = bytes.as_ptr();
    let expect = ref_utf8(&bytes[..len]);
    nd::cover!(expect && len == N, "valid full-length string");
    nd::cover!(!expect, "invalid string");
    nd::cover!(expect && len >= 2 && bytes[0] >= 0xC2, "valid multi-byte");
    nd::cover!(!expect && len >= 3 && bytes[0] == 0xED && bytes[1] >= 0xA0, "surrogate rejected");
    nd::cover!(!expect && len >= 2 && bytes[0] == 0xE0 && bytes[1] < 0xA0 && bytes[1] >= 0x80, "overlong rejected");
    nd::cover!(!expect && len >= 1 && bytes[len - 1] >= 0xC2 && (len < 2 || bytes[len - 2] < 0x80), "truncated rejected");
    {
        let cs = CSliceRef::from(&bytes[..len]);
        let r = <&str>::try_from(cs);
        assert!(r.is_ok() == expect);
        if let Ok(st) = r {
            assert!(st.as_ptr() == base && st.len() == len);
        }
    }
    {
        let cm = CSliceMut::from(&mut bytes[..len]);
        let r = <&str>::try_from(cm);
        assert!(r.is_ok() == expect);
        if let Ok(st) = r {
            assert!(st.as_ptr() == base && st.len() == len);
        }
    }
    {
        let cm = CSliceMut::from(&mut bytes[..len]);
        let r = <&mut str>::try_from(cm);
        assert!(r.is_ok() == expect);
        if let Ok(st) = r {
            assert!(st.as_ptr() == base && st.len() == len);
        }
    }
}

/// The decision depends on the bytes AT THE TIME of the conversion: a buffer is converted, rewritten in place (same
/// address, same length, arbitrary new bytes) and converted again - each conversion is accepted exactly when the bytes
/// it sees are valid UTF-8.
fn utf8_decision_after_rewrite<const N: usize>() {
    let mut bytes: [u8; N] = nd::any();
    let len = nd::range(0, N);
    let first = ref_utf8(&bytes[..len]);
    {
        let cs = CSliceRef::from(&bytes[..len]);
        assert!(<&str>::try_from(cs).is_ok() == first);
    }
    let newb: [u8; N] = nd::any();
    let mut i = 0;
    while i < N {
        bytes[i] = newb[i];
        i += 1;
    }
    let second = ref_utf8(&bytes[..len]);
    nd::cover!(first && !second, "valid, then rewritten with invalid bytes");
    nd::cover!(!first && second, "invalid, then rewritten with valid bytes");
    {
        let cs = CSliceRef::from(&bytes[..len]);
        assert!(<&str>::try_from(cs).is_ok() == second, "refused exactly for invalid UTF-8, whatever was converted before");
    }
    {
        let cm = CSliceMut::from(&mut bytes[..len]);
        assert!(<&mut str>::try_from(cm).is_ok() == second);
    }
}

/// String views: a valid string (symbolic bytes assumed valid by the reference acceptor) goes to
/// CSliceRef / CSliceMut and back with the same address, length and bytes.
fn str_rt<const N: usize>() {
    let mut bytes: [u8; N] = nd::any();
    let orig = bytes;
    let len = nd::range(0, N);
    nd::assume(ref_utf8(&bytes[..len]));
    nd::cover!(len == 0, "empty string");
    nd::cover!(len == N && bytes[0] >= 0x80, "non-ASCII string");
    let base = bytes.as_ptr();
    {
        let s = unsafe { core::str::from_utf8_unchecked(&bytes[..len]) };
        let ways = [CSliceRef::from(s), CSliceRef::from_str(s)];
        let mut w = 0;
        while w < 2 {
            let cs = ways[w];
            assert!(cs.as_ptr() == base && cs.len() == len);
            let back = unsafe { cs.into_str() };
            assert!(back.as_ptr() == base && back.len() == len);
            let bb = back.as_bytes();
            let mut i = 0;
            while i < len {
                assert!(bb[i] == orig[i]);
                i += 1;
            }
            w += 1;
        }
    }
    {
        let s = unsafe { core::str::from_utf8_unchecked_mut(&mut bytes[..len]) };
        let cm = CSliceMut::from(s);
        assert!(cm.as_ptr() == base && cm.len() == len);
        let back = unsafe { cm.into_str() };
        assert!(back.as_ptr() == base && back.len() == len);
    }
    {
        let s = unsafe { core::str::from_utf8_unchecked_mut(&mut bytes[..len]) };
        let cm = CSliceMut::from(s);
        let back = unsafe { cm.into_mut_str() };
        assert!(back.as_ptr() == base && back.len() == len);
    }
    let mut i = 0;
    while i < N {
        assert!(bytes[i] == orig[i]);
        i += 1;
    }
}

nd::harnesses! {
    #[kani::unwind(6)] fn c12_sliceref_u8_4() { sliceref_rt::<u8, 4>() }
    #[kani::unwind(6)] fn c12_sliceref_u64_4() { sliceref_rt::<u64, 4>() }
    #[kani::unwind(6)] fn c12_utf8_decision_after_rewrite_3() { utf8_decision_after_rewrite::<3>() }
    #[kani::unwind(6)] fn c12_sliceref_zst_4() { sliceref_rt::<Zst, 4>() }

    /// A slice of zero-sized elements may have ANY length up to usize::MAX: shared and mutable view keep it.
    fn c12_zst_slices_of_any_length() {
        let n: usize = nd::any();
        nd::cover!(n > isize::MAX as usize, "longer than isize::MAX");
        let p = core::ptr::NonNull::<Zst>::dangling().as_ptr();
        let s: &[Zst] = unsafe { core::slice::from_raw_parts(p as *const Zst, n) };
        let cs = CSliceRef::from(s);
        assert!(cs.len() == n && cs.as_slice().len() == n && CSliceRef::from_slice(s).len() == n);
        let back: &[Zst] = cs.into();
        assert!(back.len() == n);
        let m: &mut [Zst] = unsafe { core::slice::from_raw_parts_mut(p, n) };
        let cm = CSliceMut::from(m);
        assert!(cm.len() == n && cm.as_slice().len() == n);
    }
    #[kani::unwind(6)] fn c12_sliceref_t3_4() { sliceref_rt::<T3, 4>() }
    #[kani::unwind(16)] fn c12_slices_t3_any_address() { slices_at_any_address() }
    #[kani::unwind(8)] fn c12_sliceref_u8_6() { sliceref_rt::<u8, 6>() }
    #[kani::unwind(8)] fn c12_sliceref_u64_6() { sliceref_rt::<u64, 6>() }
    #[kani::unwind(8)] fn c12_sliceref_t3_6() { sliceref_rt::<T3, 6>() }

    #[kani::unwind(6)] fn c12_slicemut_u8_4() { slicemut_rt::<u8, 4>() }
    #[kani::unwind(6)] fn c12_slicemut_u64_4() { slicemut_rt::<u64, 4>() }
    #[kani::unwind(6)] fn c12_slicemut_zst_4() { slicemut_rt::<Zst, 4>() }
    #[kani::unwind(6)] fn c12_slicemut_t3_4() { slicemut_rt::<T3, 4>() }
    #[kani::unwind(8)] fn c12_slicemut_u8_6() { slicemut_rt::<u8, 6>() }
    #[kani::unwind(8)] fn c12_slicemut_u64_6() { slicemut_rt::<u64, 6>() }
    #[kani::unwind(8)] fn c12_slicemut_t3_6() { slicemut_rt::<T3, 6>() }

    #[kani::unwind(6)] fn c12_utf8_decision_4() { utf8_decision::<4>() }
    #[kani::unwind(7)] fn c12_utf8_decision_5() { utf8_decision::<5>() }
    #[kani::unwind(6)] fn c12_str_rt_4() { str_rt::<4>() }
    #[kani::unwind(7)] fn c12_str_rt_5() { str_rt::<5>() }

    /// COption <-> Option: variant and payload preserved (full u64 range), accessors agree.
    fn c12_coption_value() {
        let some: bool = nd::any();
        let v: u64 = nd::any();
        nd::cover!(some, "Some");
        nd::cover!(!some, "None");
        let o: Option<u64> = if some { Some(v) } else { None };
        let mut c: COption<u64> = o.into();
        assert!(c.is_some() == some);
        assert!(c.as_ref().copied() == o);
        assert!(matches!(c, COption::Some(x) if x == v) == some);
        assert!(matches!(c, COption::None) == !some);
        let w: u64 = nd::any();
        if let Some(r) = c.as_mut() {
            *r = w;
        }
        let back: Option<u64> = c.into();
        assert!(back == if some { Some(w) } else { None });
        let mut c2: COption<u64> = o.into();
        let t = c2.take();
        assert!(t == o);
        assert!(!c2.is_some());
        assert!(Option::<u64>::from(c2).is_none());
        assert!(!COption::<u64>::default().is_some());
        if some {
            assert!(COption::from(o).unwrap() == v);
        }
    }

    /// Payloads whose size exceeds their alignment (a 3-byte struct, a pair of u64, five u16) go through COption and
    /// CResult and back without changing a single byte.
    #[kani::unwind(8)]
    fn c12_option_result_wide_payloads() {
        let t3: T3 = nd::any();
        let pair: (u64, u64) = (nd::any(), nd::any());
        let five: [u16; 5] = nd::any();
        let c: COption<T3> = Some(t3).into();
        assert!(Option::<T3>::from(c) == Some(t3));
        let mut c: COption<(u64, u64)> = Some(pair).into();
        assert!(c.take() == Some(pair));
        let c: COption<(u64, u64)> = Some(pair).into();
        assert!(Option::<(u64, u64)>::from(c) == Some(pair));
        let c: COption<[u16; 5]> = Some(five).into();
        let back = Option::<[u16; 5]>::from(c).unwrap();
        let mut i = 0;
        while i < 5 { assert!(back[i] == five[i]); i += 1; }
        let ok: bool = nd::any();
        let r: Result<(u64, u64), T3> = if ok { Ok(pair) } else { Err(t3) };
        let cr: CResult<(u64, u64), T3> = r.into();
        let rb: Result<(u64, u64), T3> = cr.into();
        assert!(rb == if ok { Ok(pair) } else { Err(t3) });
    }

    /// COption with a drop-counted payload: every conversion moves it, nothing is dropped or
    /// duplicated until the end, then exactly once.
    fn c12_coption_moves() {
        reset();
        let some: bool = nd::any();
        let v: u32 = nd::any();
        let path: u8 = nd::any();
        nd::assume(path < 4);
        nd::cover!(some && path == 0, "Some round trip");
        nd::cover!(some && path == 1, "Some take");
        nd::cover!(some && path == 3, "Some unwrap");
        nd::cover!(!some, "None");
        let o: Option<Pay> = if some { Some(Pay::new(v)) } else { None };
        let n = if some { 1 } else { 0 };
        let mut c: COption<Pay> = o.into();
        assert!(live() == n && drops() == 0);
        match path {
            0 => {
                let back: Option<Pay> = c.into();
                assert!(live() == n && drops() == 0);
                assert!(back.as_ref().map(|p| p.val) == if some { Some(v) } else { None });
                let again: COption<Pay> = back.into();
                assert!(live() == n && drops() == 0);
                drop(again);
            }
            1 => {
                let t = c.take();
                assert!(live() == n && drops() == 0);
                assert!(!c.is_some());
                drop(c);
                assert!(live() == n && drops() == 0);
                assert!(t.as_ref().map(|p| p.val) == if some { Some(v) } else { None });
                drop(t);
            }
            2 => {
                assert!(c.as_ref().map(|p| p.val) == if some { Some(v) } else { None });
                assert!(live() == n && drops() == 0);
                drop(c);
            }
            _ => {
                if some {
                    let p = c.unwrap();
                    assert!(live() == 1 && drops() == 0 && p.val == v);
                    drop(p);
                } else {
                    drop(c);
                }
            }
        }
        assert!(live() == 0);
        assert!(drops() == n as u32);
        assert!(made() == n as u32);
    }

    /// CResult <-> Result: variant and payload preserved.
    fn c12_cresult_value() {
        let ok: bool = nd::any();
        let v: u64 = nd::any();
        let e: u16 = nd::any();
        nd::cover!(ok, "Ok");
        nd::cover!(!ok, "Err");
        let r: Result<u64, u16> = if ok { Ok(v) } else { Err(e) };
        let mut c: CResult<u64, u16> = r.into();
        assert!(c.is_ok() == ok && c.is_err() == !ok);
        assert!(c.as_ref().map(|x| *x).map_err(|x| *x) == r);
        assert!(matches!(c, CResult::Ok(x) if x == v) == ok);
        assert!(matches!(c, CResult::Err(x) if x == e) == !ok);
        let w: u64 = nd::any();
        let f: u16 = nd::any();
        match c.as_mut() {
            Ok(x) => *x = w,
            Err(x) => *x = f,
        }
        let back: Result<u64, u16> = c.into();
        assert!(back == if ok { Ok(w) } else { Err(f) });
        let c2: CResult<u64, u16> = r.into();
        assert!(c2.ok() == r.ok());
        if ok {
            let c3: CResult<u64, u16> = r.into();
            assert!(c3.unwrap() == v);
        }
    }

    /// CResult with drop-counted payloads on both sides.
    fn c12_cresult_moves() {
        reset();
        let ok: bool = nd::any();
        let v: u32 = nd::any();
        let path: u8 = nd::any();
        nd::assume(path < 3);
        nd::cover!(ok && path == 1, "Ok -> ok()");
        nd::cover!(!ok && path == 1, "Err -> ok() drops the error once");
        let r: Result<Pay, Pay> = if ok { Ok(Pay::new(v)) } else { Err(Pay::new(!v)) };
        let c: CResult<Pay, Pay> = r.into();
        assert!(live() == 1 && drops() == 0);
        match path {
            0 => {
                let back: Result<Pay, Pay> = c.into();
                assert!(live() == 1 && drops() == 0);
                match &back {
                    Ok(p) => assert!(ok && p.val == v),
                    Err(p) => assert!(!ok && p.val == !v),
                }
                let again: CResult<Pay, Pay> = back.into();
                assert!(live() == 1 && drops() == 0);
                drop(again);
            }
            1 => {
                let o = c.ok();
                assert!(o.is_some() == ok);
                if ok {
                    assert!(live() == 1 && drops() == 0);
                } else {
                    assert!(live() == 0 && drops() == 1);
                }
                drop(o);
            }
            _ => {
                if ok {
                    let p = c.unwrap();
                    assert!(p.val == v && live() == 1 && drops() == 0);
                } else {
                    drop(c);
                }
            }
        }
        assert!(live() == 0 && drops() == 1 && made() == 1);
    }

    /// CTup1..4 <-> tuples: every field preserved in position, payload moved once.
    fn c12_ctup() {
        reset();
        let a: u8 = nd::any();
        let b: u64 = nd::any();
        let c: u16 = nd::any();
        let d: u32 = nd::any();
        let t1: CTup1<u8> = (a,).into();
        assert!(t1.0 == a);
        assert!(t1.into_tuple() == (a,));
        let t2: CTup2<u8, u64> = (a, b).into();
        assert!(t2.0 == a && t2.1 == b);
        assert!(<(u8, u64)>::from(t2) == (a, b));
        let t3: CTup3<u8, u64, u16> = (a, b, c).into();
        assert!(t3.0 == a && t3.1 == b && t3.2 == c);
        assert!(t3.into_tuple() == (a, b, c));
        let t4: CTup4<u8, u64, u16, Pay> = (a, b, c, Pay::new(d)).into();
        assert!(live() == 1 && drops() == 0);
        assert!(t4.0 == a && t4.1 == b && t4.2 == c && t4.3.val == d);
        let back = t4.into_tuple();
        assert!(live() == 1 && drops() == 0);
        assert!(back.0 == a && back.1 == b && back.2 == c && back.3.val == d);
        let again: CTup4<u8, u64, u16, Pay> = back.into();
        assert!(live() == 1 && drops() == 0);
        drop(again);
        assert!(live() == 0 && drops() == 1);
    }

    /// Negative twin: a deliberately wrong claim (the C view's length is one more than the
    /// slice's) must come back FAILED; proves the comparisons discriminate.
    #[kani::unwind(6)]
    fn c12_negative_twin() {
        let backing: [u8; 4] = nd::any();
        let len = nd::range(0, 4);
        let cs = CSliceRef::from(&backing[..len]);
        assert!(cs.len() == len + 1, "negative twin: expected to fail");
    }
}
