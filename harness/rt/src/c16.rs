//! C16 - runtime types keep the C layout published in the headers.
//!
//! A real cglue value with symbolic contents is reinterpreted as a `#[repr(C)]` VIEW struct that
//! is written from the published C declaration, and then driven purely through the view's fields
//! and function pointers, the way a foreign caller would. For the types that appear in
//! `examples/pregen-headers/bindings.h` the views are GENERATED from that header on every run
//! (`c16_views_gen.rs`, written by tools/gen_c16_views.py: field names and order are the
//! header's); for the others (CSliceMut, CVec, COption, CResult) they are written from the
//! property statement.

use crate::common::*;
use crate::c16_views_gen::*;
use cglue::arc::CArc;
use cglue::boxed::CBox;
use cglue::callback::OpaqueCallback;
use cglue::iter::CIterator;
use cglue::option::COption;
use cglue::result::CResult;
use cglue::slice::{CSliceMut, CSliceRef};
use cglue::vec::CVec;
use core::mem::{align_of, size_of, transmute_copy, MaybeUninit};
use nd::Nd;
use std::sync::Arc;

#[repr(C)]
struct CSliceMutView {
    data: usize,
    len: usize,
}
#[repr(C)]
struct CVecView {
    data: usize,
    len: usize,
    capacity: usize,
    drop_fn: usize,
    reserve_fn: usize,
}
/// C: `struct { int tag; T payload; }` (a `#[repr(C)]` enum with fields is a tagged union whose
/// tag has the size of a C int).
#[repr(C)]
struct TagView<T> {
    tag: i32,
    val: T,
}
#[repr(C)]
union ResU<T: Copy, E: Copy> {
    ok: T,
    err: E,
}
#[repr(C)]
struct ResView<T: Copy, E: Copy> {
    tag: i32,
    u: ResU<T, E>,
}

fn same_layout<A, B>() {
    assert!(size_of::<A>() == size_of::<B>(), "C view and Rust type have the same size");
    assert!(align_of::<A>() == align_of::<B>(), "C view and Rust type have the same alignment");
}

use crate::c12::T3;

fn slices_view<T: Nd + Copy + PartialEq, const N: usize>() {
    same_layout::<CSliceRef<T>, CSliceRef_u8>();
    same_layout::<CSliceMut<T>, CSliceMutView>();
    let mut backing: [T; N] = nd::any();
    let len = nd::range(0, N);
    let base = backing.as_ptr() as usize;
    {
        let cs = CSliceRef::from(&backing[..len]);
        let v: CSliceRef_u8 = unsafe { transmute_copy(&cs) };
        assert!(v.data as usize == cs.as_ptr() as usize && v.len == len);
        let mut i = 0;
        while i < len {
            assert!(unsafe { *((v.data as *const T).add(i)) } == backing[i], "read through data and len");
            i += 1;
        }
        // the other direction: a slice described by a foreign caller
        let f = CSliceRef_u8 { data: base as *const u8, len };
        let back: CSliceRef<T> = unsafe { transmute_copy(&f) };
        assert!(back.len() == len && back.as_ptr() as usize == base);
    }
    {
        let idx: usize = nd::any();
        let x: T = nd::any();
        let cm = CSliceMut::from(&mut backing[..len]);
        let v: CSliceMutView = unsafe { transmute_copy(&cm) };
        assert!(v.data == cm.as_ptr() as usize && v.len == len);
        if idx < len {
            unsafe { *((v.data as *mut T).add(idx)) = x };
            assert!(cm.as_slice()[idx] == x, "write through the C view is visible to Rust");
        }
    }
}

fn cvec_view<T: Nd + Copy + PartialEq, const N0: usize, const SPARE: usize>() {
    same_layout::<CVec<T>, CVecView>();
    let mut v: Vec<T> = Vec::with_capacity(N0 + SPARE);
    let mut m: [Option<T>; 8] = [None; 8];
    let mut i = 0;
    while i < N0 {
        let x: T = nd::any();
        v.push(x);
        m[i] = Some(x);
        i += 1;
    }
    let mut cv = CVec::from(v);
    let view: CVecView = unsafe { transmute_copy(&cv) };
    assert!(view.data == cv.as_ptr() as usize, "data");
    assert!(view.len == cv.len() && view.len == N0, "length");
    assert!(view.capacity == cv.capacity(), "capacity");
    assert!(view.drop_fn != 0 && view.reserve_fn != 0);
    // grow: reserve_fn(&mut vec, n) as a C caller would
    let n = nd::range(0, 3);
    nd::cover!(n > SPARE, "growth needed");
    let reserve: extern "C" fn(*mut CVecView, usize) -> usize = unsafe { core::mem::transmute(view.reserve_fn) };
    let newcap = reserve(&mut cv as *mut CVec<T> as *mut CVecView, n);
    let view2: CVecView = unsafe { transmute_copy(&cv) };
    assert!(newcap == view2.capacity && newcap == cv.capacity(), "reserve_fn returns the new capacity");
    assert!(view2.capacity - view2.len >= n);
    assert!(view2.len == N0);
    assert!(view2.drop_fn == view.drop_fn && view2.reserve_fn == view.reserve_fn);
    let mut i = 0;
    while i < N0 {
        assert!(Some(unsafe { *((view2.data as *const T).add(i)) }) == m[i], "read through data");
        assert!(Some(cv[i]) == m[i]);
        i += 1;
    }
    // append as a C caller: write at data[len], bump len
    if n > 0 {
        let x: T = nd::any();
        unsafe {
            *((view2.data as *mut T).add(view2.len)) = x;
            (*(&mut cv as *mut CVec<T> as *mut CVecView)).len += 1;
        }
        assert!(cv.len() == N0 + 1 && cv[N0] == x);
    }
    // release: drop_fn(data, len, capacity)
    let view3: CVecView = unsafe { transmute_copy(&cv) };
    let dropf: unsafe extern "C" fn(usize, usize, usize) = unsafe { core::mem::transmute(view3.drop_fn) };
    core::mem::forget(cv);
    unsafe { dropf(view3.data, view3.len, view3.capacity) };
}

/// state of an iterator made by C code: counts down, then reports the end with its own non-zero code
#[repr(C)]
pub struct FIt {
    left: i32,
    end_code: i32,
    calls: u32,
}
extern "C" fn foreign_next(st: &mut FIt, out: &mut core::mem::MaybeUninit<i32>) -> i32 {
    st.calls += 1;
    if st.left > 0 {
        unsafe { out.as_mut_ptr().write(st.left) };
        st.left -= 1;
        0
    } else {
        st.end_code
    }
}

/// C: `struct CSliceBox_T { struct CSliceMut_T instance; void (*drop_fn)(struct CSliceMut_T *); }`
#[repr(C)]
struct CSliceBoxPayView {
    data: *mut Pay,
    len: usize,
    drop_fn: usize,
}

nd::harnesses! {
    /// CBox = {instance, drop function}: releasing through the view drops the value exactly once
    /// and frees the allocation (leak check on), like dropping the CBox.
    fn c16_cbox_view() {
        reset();
        same_layout::<CBox<'static, Pay>, CBox_c_void>();
        let v: u32 = nd::any();
        let via_view: bool = nd::any();
        nd::cover!(via_view, "released through the C view");
        nd::cover!(!via_view, "released by Rust");
        let b = CBox::from(Pay::new(v));
        let view: CBox_c_void = unsafe { transmute_copy(&b) };
        assert!(view.instance as usize == &*b as *const Pay as usize, "instance points at the value");
        assert!(unsafe { (*(view.instance as *const Pay)).val } == v);
        assert!(view.drop_fn != 0);
        assert!(live() == 1 && drops() == 0);
        if via_view {
            core::mem::forget(b);
            let f: unsafe extern "C" fn(*mut u8) = unsafe { core::mem::transmute(view.drop_fn) };
            unsafe { f(view.instance as *mut u8) };
        } else {
            drop(b);
        }
        assert!(live() == 0 && drops() == 1);
    }

    /// CArc = {instance, clone function, drop function}.
    #[kani::unwind(4)]
    fn c16_carc_view() {
        reset();
        same_layout::<CArc<Pay>, CArc_c_void>();
        let v: u32 = nd::any();
        let base = Arc::new(Pay::new(v));
        let a: CArc<Pay> = CArc::from(base.clone());
        let view: CArc_c_void = unsafe { transmute_copy(&a) };
        assert!(view.instance as usize == Arc::as_ptr(&base) as usize, "instance points at the shared value");
        assert!(view.clone_fn != 0 && view.drop_fn != 0);
        // C: const void *(*clone_fn)(const void*), void (*drop_fn)(const void*); a nullable reference is
        // the ABI-identical Rust spelling of those pointer parameters (CBMC resolves indirect calls
        // by signature, so the call-site type has to be spelled the way the callee's is)
        type P = Option<&'static Pay>;
        let clone_f: unsafe extern "C" fn(P) -> P = unsafe { core::mem::transmute(view.clone_fn) };
        let drop_f: unsafe extern "C" fn(P) = unsafe { core::mem::transmute(view.drop_fn) };
        let as_p = |w: *const u8| -> P { unsafe { (w as *const Pay).as_ref() } };
        let clone = |w: *const u8| -> *const u8 { match unsafe { clone_f(as_p(w)) } { Some(r) => r as *const Pay as *const u8, None => core::ptr::null() } };
        let dropf = |w: *const u8| unsafe { drop_f(as_p(w)) };
        let n = nd::range(0, 2);
        let mut i = 0;
        while i < n {
            let p2 = clone(view.instance as *const u8);
            assert!(p2 as usize == view.instance as usize);
            assert!(Arc::strong_count(&base) == 3);
            dropf(p2);
            assert!(Arc::strong_count(&base) == 2);
            i += 1;
        }
        // a clone made through the view, adopted by Rust as a CArc built from the same three words
        let p3 = clone(view.instance as *const u8);
        let adopted: CArc<Pay> = unsafe { transmute_copy(&CArc_c_void { instance: p3 as _, clone_fn: view.clone_fn, drop_fn: view.drop_fn }) };
        assert!(Arc::strong_count(&base) == 3);
        assert!(adopted.as_ref().map(|p| p.val) == Some(v));
        drop(adopted);
        assert!(Arc::strong_count(&base) == 2);
        core::mem::forget(a);
        dropf(view.instance as *const u8);
        assert!(Arc::strong_count(&base) == 1 && drops() == 0);
        // empty arc: all three words are zero
        let e: CArc<Pay> = CArc::default();
        let ev: CArc_c_void = unsafe { transmute_copy(&e) };
        assert!(ev.instance as usize == 0 && ev.clone_fn == 0 && ev.drop_fn == 0);
        drop(base);
        assert!(drops() == 1);
    }

    /// Over-aligned payload (the reference counts sit further in front of the value): an OPAQUE handle is
    /// cloned on the Rust side, and the clone's published functions are then used by a C caller.
    #[kani::unwind(4)]
    fn c16_carc_view_overaligned_opaque_clone() {
        use cglue::trait_group::{c_void, Opaquable};
        #[repr(align(64))]
        struct Big(u64);
        let v: u64 = nd::any();
        let base = Arc::new(Big(v));
        let a: CArc<Big> = CArc::from(base.clone());
        let o: CArc<c_void> = a.into_opaque();
        let o2 = o.clone();
        assert!(Arc::strong_count(&base) == 3);
        let view: CArc_c_void = unsafe { transmute_copy(&o2) };
        let orig: CArc_c_void = unsafe { transmute_copy(&o) };
        assert!(view.instance as usize == Arc::as_ptr(&base) as usize);
        assert!(view.clone_fn == orig.clone_fn && view.drop_fn == orig.drop_fn, "a clone carries the functions of the handle it was cloned from");
        type P = Option<&'static c_void>;
        let clone_f: unsafe extern "C" fn(P) -> P = unsafe { core::mem::transmute(view.clone_fn) };
        let drop_f: unsafe extern "C" fn(P) = unsafe { core::mem::transmute(view.drop_fn) };
        let as_p = |w: *const u8| -> P { unsafe { (w as *const c_void).as_ref() } };
        let p3 = unsafe { clone_f(as_p(view.instance)) };
        assert!(Arc::strong_count(&base) == 4, "the published clone function takes a reference on the real allocation");
        unsafe { drop_f(p3) };
        assert!(Arc::strong_count(&base) == 3);
        drop(o2);
        drop(o);
        assert!(Arc::strong_count(&base) == 1 && base.0 == v);
    }

    #[kani::unwind(6)] fn c16_slices_u8() { slices_view::<u8, 3>() }
    #[kani::unwind(6)] fn c16_slices_u64() { slices_view::<u64, 3>() }
    #[kani::unwind(6)] fn c16_slices_t3() { slices_view::<T3, 3>() }

    #[kani::unwind(7)] fn c16_cvec_u8_exact() { cvec_view::<u8, 2, 0>() }
    #[kani::unwind(7)] fn c16_cvec_u64_exact() { cvec_view::<u64, 2, 0>() }
    #[kani::unwind(7)] fn c16_cvec_u64_spare() { cvec_view::<u64, 1, 2>() }
    #[kani::unwind(7)] fn c16_cvec_t3_empty() { cvec_view::<T3, 0, 0>() }

    /// Callback = {context, function}: invoking func(context, item) runs the closure with item
    /// and returns its verdict.
    fn c16_callback_view() {
        let item: u64 = nd::any();
        let verdict: bool = nd::any();
        let mut got = 0u64;
        let mut calls = 0u32;
        {
            let mut f = |x: u64| {
                got = x;
                calls += 1;
                verdict
            };
            let fptr = &mut f as *mut _ as usize;
            let cb: OpaqueCallback<u64> = (&mut f).into();
            same_layout::<OpaqueCallback<u64>, Callback_c_void__KeyValue>();
            let view: Callback_c_void__KeyValue = unsafe { transmute_copy(&cb) };
            assert!(view.context as usize == fptr, "context is the closure");
            let func: extern "C" fn(*mut u8, u64) -> bool = unsafe { core::mem::transmute(view.func) };
            assert!(func(view.context as *mut u8, item) == verdict);
            assert!(func(view.context as *mut u8, !item) == verdict);
        }
        assert!(calls == 2 && got == !item);
    }

    /// Iterator = {state, next function returning 0 for an item}.
    #[kani::unwind(6)]
    fn c16_citerator_view() {
        let items: [i32; 3] = nd::any();
        let n = nd::range(0, 3);
        let mut it = items[..n].iter().copied();
        let itp = &mut it as *mut _ as usize;
        let ci = CIterator::new(&mut it);
        same_layout::<CIterator<i32>, CIterator_i32>();
        let view: CIterator_i32 = unsafe { transmute_copy(&ci) };
        assert!(view.iter as usize == itp, "state is the iterator");
        let func: extern "C" fn(*mut u8, *mut i32) -> i32 = unsafe { core::mem::transmute(view.func) };
        let mut j = 0;
        while j < n {
            let mut out = MaybeUninit::<i32>::uninit();
            let code = func(view.iter as *mut u8, out.as_mut_ptr());
            assert!(code == 0, "0 for an item");
            assert!(unsafe { out.assume_init() } == items[j]);
            j += 1;
        }
        let sentinel: i32 = nd::any();
        let mut out = sentinel;
        assert!(func(view.iter as *mut u8, &mut out) != 0, "non-zero at the end");
        assert!(out == sentinel, "out slot untouched at the end");
    }

    /// Iterator with DROPPABLE items, advanced the way a C loop does it (one uninitialised slot, reused):
    /// the next function only WRITES the slot - it never reads or drops what was there.
    #[kani::unwind(6)]
    fn c16_citerator_view_droppable_items() {
        reset();
        let n = nd::range(0, 3);
        let mut src: [Option<Pay>; 3] = [None, None, None];
        let mut i = 0;
        while i < n {
            src[i] = Some(Pay::new(20 + i as u32));
            i += 1;
        }
        {
            let mut it = src.iter_mut().filter_map(|s| s.take());
            let ci = CIterator::new(&mut it);
            let view: CIterator_i32 = unsafe { transmute_copy(&ci) };
            let func: extern "C" fn(*mut u8, *mut Pay) -> i32 = unsafe { core::mem::transmute(view.func) };
            let mut slot = MaybeUninit::<Pay>::uninit();
            let mut j = 0;
            while j < n {
                assert!(func(view.iter as *mut u8, slot.as_mut_ptr()) == 0);
                // the C caller takes the item out of the slot and releases it
                let item = unsafe { slot.as_ptr().read() };
                assert!(item.val == 20 + j as u32 && item.is_live());
                drop(item);
                assert!(drops() == j as u32 + 1, "exactly the yielded item was released, nothing else");
                j += 1;
            }
            assert!(func(view.iter as *mut u8, slot.as_mut_ptr()) != 0);
        }
        assert!(live() == 0 && drops() == n as u32 && made() == n as u32);
    }

    /// Boxed slice = {slice {data, len}, release function taking a pointer to that slice}: a C caller that owns the value
    /// releases it through the function - every element is destroyed once and the storage is freed (leak check).
    #[kani::unwind(6)]
    fn c16_cslicebox_view_released_by_c() {
        reset();
        let n = nd::range(0, 2);
        nd::cover!(n == 2, "two droppable elements");
        let mut v: Vec<Pay> = Vec::with_capacity(2);
        let mut i = 0;
        while i < n {
            v.push(Pay::new(i as u32 + 7));
            i += 1;
        }
        let sb: cglue::boxed::CSliceBox<Pay> = cglue::boxed::CSliceBox::from(v.into_boxed_slice());
        assert!(core::mem::size_of_val(&sb) == core::mem::size_of::<CSliceBoxPayView>());
        let mut view: CSliceBoxPayView = unsafe { transmute_copy(&sb) };
        core::mem::forget(sb);
        assert!(view.len == n && view.drop_fn != 0);
        if n > 0 {
            assert!(unsafe { (*view.data).val } == 7);
        }
        assert!(live() == n as i32 && drops() == 0);
        let f: unsafe extern "C" fn(&mut CSliceMut<'static, Pay>) = unsafe { core::mem::transmute(view.drop_fn) };
        unsafe { f(&mut *(&mut view as *mut CSliceBoxPayView as *mut CSliceMut<'static, Pay>)) };
        assert!(live() == 0 && drops() == n as u32, "the release function destroys every element exactly once");
    }

    /// Values MADE by C code from the published declarations are valid on the Rust side: a box with a null release
    /// function (what the header's borrowed-box constructor builds; the helpers guard `if (drop_fn && instance)`) is read
    /// and released without calling anything; an iterator whose function reports the end with ANY non-zero code ends.
    #[kani::unwind(5)]
    fn c16_views_made_by_c() {
        let v: u32 = nd::any();
        let mut cell = v;
        {
            let view = CBox_c_void { instance: &mut cell as *mut u32 as *const u8, drop_fn: 0 };
            let b: CBox<u32> = unsafe { from_view(view) };
            assert!(*b == v);
            drop(b);
        }
        assert!(cell == v);
        let n = nd::range(0, 2) as i32;
        let end_code: i32 = nd::any();
        nd::assume(end_code != 0);
        nd::cover!(end_code < 0, "negative end code");
        nd::cover!(end_code == 1, "end code 1");
        let mut st = FIt { left: n, end_code, calls: 0 };
        {
            let view = CIterator_i32 { iter: &mut st as *mut FIt as *const u8, func: foreign_next as usize };
            let mut it: CIterator<i32> = unsafe { from_view(view) };
            let mut j = n;
            while j > 0 {
                assert!(it.next() == Some(j));
                j -= 1;
            }
            assert!(it.next().is_none(), "0 for an item, anything else ends the iteration");
        }
        assert!(st.calls == n as u32 + 1);
    }

    /// Option/result tags: None=0/Some=1, Ok=0/Err=1, read as a C int at offset 0, payload at the
    /// offset C gives it (`struct { int tag; union { T .. } }`), for payloads of different size and
    /// alignment. (Fields are read individually: Kani's object for an enum value has no trailing
    /// padding, so a whole-struct read of the view would step outside it.)
    fn c16_tags() {
        fn tag<X>(x: &X) -> i32 {
            unsafe { *(x as *const X as *const i32) }
        }
        fn at<X, P: Copy>(x: &X, off: usize) -> P {
            unsafe { *((x as *const X as *const u8).add(off) as *const P) }
        }
        same_layout::<COption<u8>, TagView<u8>>();
        same_layout::<COption<u32>, TagView<u32>>();
        same_layout::<COption<u64>, TagView<u64>>();
        same_layout::<CResult<u64, u8>, ResView<u64, u8>>();
        same_layout::<CResult<u8, u32>, ResView<u8, u32>>();
        let o8 = core::mem::offset_of!(TagView<u8>, val);
        let o32 = core::mem::offset_of!(TagView<u32>, val);
        let o64 = core::mem::offset_of!(TagView<u64>, val);
        assert!(o8 == 4 && o32 == 4 && o64 == 8);
        let a: u8 = nd::any();
        let b: u32 = nd::any();
        let c: u64 = nd::any();
        let s8: COption<u8> = COption::Some(a);
        assert!(tag(&s8) == 1 && at::<_, u8>(&s8, o8) == a, "Some = 1, payload after the tag");
        let s32: COption<u32> = Some(b).into();
        assert!(tag(&s32) == 1 && at::<_, u32>(&s32, o32) == b);
        let s64: COption<u64> = COption::Some(c);
        assert!(tag(&s64) == 1 && at::<_, u64>(&s64, o64) == c);
        let n64: COption<u64> = None.into();
        assert!(tag(&n64) == 0, "None = 0");
        let n8: COption<u8> = COption::None;
        assert!(tag(&n8) == 0);
        // values written by a C caller
        let made = TagView::<u32> { tag: 1, val: b };
        let back: COption<u32> = unsafe { transmute_copy(&made) };
        assert!(Option::from(back) == Some(b));
        let made0 = TagView::<u32> { tag: 0, val: b };
        let back0: COption<u32> = unsafe { transmute_copy(&made0) };
        assert!(!back0.is_some());
        let made64 = TagView::<u64> { tag: 1, val: c };
        let back64: COption<u64> = unsafe { transmute_copy(&made64) };
        assert!(Option::from(back64) == Some(c));

        let r_ok = core::mem::offset_of!(ResView<u64, u8>, u);
        assert!(r_ok == 8);
        let ok: CResult<u64, u8> = Ok(c).into();
        assert!(tag(&ok) == 0 && at::<_, u64>(&ok, r_ok) == c, "Ok = 0");
        let er: CResult<u64, u8> = Err(a).into();
        assert!(tag(&er) == 1 && at::<_, u8>(&er, r_ok) == a, "Err = 1");
        let r2 = core::mem::offset_of!(ResView<u8, u32>, u);
        assert!(r2 == 4);
        let er2: CResult<u8, u32> = CResult::Err(b);
        assert!(tag(&er2) == 1 && at::<_, u32>(&er2, r2) == b);
        let ok2: CResult<u8, u32> = CResult::Ok(a);
        assert!(tag(&ok2) == 0 && at::<_, u8>(&ok2, r2) == a);
        let made = ResView::<u64, u8> { tag: 0, u: ResU { ok: c } };
        let back: CResult<u64, u8> = unsafe { transmute_copy(&made) };
        assert!(Result::from(back) == Ok(c));
        let made = ResView::<u64, u8> { tag: 1, u: ResU { err: a } };
        let back: CResult<u64, u8> = unsafe { transmute_copy(&made) };
        assert!(Result::from(back) == Err(a));
    }

    /// Negative twin: claims the drop function is the FIRST word of a CBox.
    fn c16_negative_twin() {
        reset();
        let b = CBox::from(Pay::new(3));
        let words: [usize; 2] = unsafe { transmute_copy(&b) };
        assert!(words[1] == &*b as *const Pay as usize, "negative twin: expected to fail");
        core::mem::forget(b);
    }
}
