//! Observers (from `nd::obs`) and the reference models of the runtime-type harnesses.

pub use nd::obs::*;

/// A value built by "foreign" code as the C-declared view of a library type, handed to the library as that type.
/// (Not `mem::transmute`: a size change of the library type must be a failing check of the harness, not a build
/// failure of the whole harness crate.)
pub unsafe fn from_view<V, T>(view: V) -> T {
    assert!(core::mem::size_of::<V>() == core::mem::size_of::<T>(), "a C-declared view and the library type have the same size");
    let t = core::mem::transmute_copy::<V, T>(&view);
    core::mem::forget(view);
    t
}

/// Independent prefix-to-first-NUL scan (reference model for C14).
pub fn nul_prefix_len(b: &[u8]) -> usize {
    let mut n = 0;
    while n < b.len() && b[n] != 0 {
        n += 1;
    }
    n
}

/// Independent table-driven UTF-8 acceptor written from RFC 3629 section 4 (reference model for
/// C12; deliberately does not call anything in core::str).
pub fn ref_utf8(b: &[u8]) -> bool {
    let mut i = 0;
    while i < b.len() {
        let c = b[i];
        let n = if c < 0x80 {
            0
        } else if c >= 0xC2 && c <= 0xDF {
            1
        } else if c >= 0xE0 && c <= 0xEF {
            2
        } else if c >= 0xF0 && c <= 0xF4 {
            3
        } else {
            return false;
        };
        if n != 0 && i + n >= b.len() {
            return false;
        }
        if n >= 1 {
            let c1 = b[i + 1];
            let (lo, hi) = match c {
                0xE0 => (0xA0, 0xBF),
                0xED => (0x80, 0x9F),
                0xF0 => (0x90, 0xBF),
                0xF4 => (0x80, 0x8F),
                _ => (0x80, 0xBF),
            };
            if c1 < lo || c1 > hi {
                return false;
            }
        }
        if n >= 2 {
            let c2 = b[i + 2];
            if c2 < 0x80 || c2 > 0xBF {
                return false;
            }
        }
        if n >= 3 {
            let c3 = b[i + 3];
            if c3 < 0x80 || c3 > 0xBF {
                return false;
            }
        }
        i += n + 1;
    }
    true
}
