#[cfg(not(kani))]
fn main() {
    nd::replay_main(&[gencorp::TABLE]);
}
#[cfg(kani)]
fn main() {}
