#[cfg(not(kani))]
fn main() {
    nd::replay_main(fut::TABLES);
}
#[cfg(kani)]
fn main() {}
