//! C19 through the GENERATED Stream glue: `trait_obj!(.. as Stream)`, `poll_next`. The waker the stream
//! receives is cloned (chain / star of 2, enumerated), its handles have symbolic fates (phase of death -
//! the last one after the poll returned -, drop or wake by value, wake_by_ref per phase), and the three
//! poll outcomes Ready(Some) / Ready(None) / Pending are symbolic.
#![allow(clippy::all)]
#![allow(unused, static_mut_refs)]

use cglue::*;
use core::mem::ManuallyDrop;
use core::pin::Pin;
use core::task::{Context, Poll, RawWaker, RawWakerVTable, Waker};
use futures::Stream;

pub struct Cnt {
    pub live: i32,
    pub wakes: u32,
    pub bad: bool,
    pub clones: u32,
}
unsafe fn w_clone(p: *const ()) -> RawWaker {
    let c = &mut *(p as *mut Cnt);
    if c.live <= 0 { c.bad = true; }
    c.live += 1;
    c.clones += 1;
    RawWaker::new(p, &VT)
}
unsafe fn w_wake(p: *const ()) {
    let c = &mut *(p as *mut Cnt);
    if c.live <= 0 { c.bad = true; }
    c.wakes += 1;
    c.live -= 1;
}
unsafe fn w_wake_by_ref(p: *const ()) {
    let c = &mut *(p as *mut Cnt);
    if c.live <= 0 { c.bad = true; }
    c.wakes += 1;
}
unsafe fn w_drop(p: *const ()) {
    let c = &mut *(p as *mut Cnt);
    if c.live <= 0 { c.bad = true; }
    c.live -= 1;
}
static VT: RawWakerVTable = RawWakerVTable::new(w_clone, w_wake, w_wake_by_ref, w_drop);

pub struct H {
    w: ManuallyDrop<Waker>,
    alive: bool,
    end: u8,
    by_wake: bool,
}
impl H {
    fn new(w: Waker) -> H {
        let end: u8 = nd::any();
        nd::assume(end < 3);
        H { w: ManuallyDrop::new(w), alive: true, end, by_wake: nd::any() }
    }
}
fn phase(h: &mut H, p: u8, wakes: &mut u32) {
    let wbr: bool = nd::any();
    if h.alive && wbr {
        h.w.wake_by_ref();
        *wakes += 1;
    }
    if h.alive && h.end == p {
        h.alive = false;
        let w = unsafe { ManuallyDrop::take(&mut h.w) };
        if h.by_wake {
            w.wake();
            *wakes += 1;
        } else {
            drop(w);
        }
    }
}

pub struct Slots {
    ha: Option<H>,
    hb: Option<H>,
    wakes: u32,
}
pub struct St {
    slots: *mut Slots,
    outcome: u8,
    val: u32,
    star: bool,
}
unsafe impl Send for St {}
impl Stream for St {
    type Item = u32;
    fn poll_next(self: Pin<&mut Self>, cx: &mut Context<'_>) -> Poll<Option<u32>> {
        let (star, outcome, val) = (self.star, self.outcome, self.val);
        let slots_ptr = self.slots;
        let me = unsafe { &mut *slots_ptr };
        let w = cx.waker();
        let a = w.clone();
        let b = if star { w.clone() } else { a.clone() };
        let mut ha = H::new(a);
        let mut hb = H::new(b);
        if nd::any() {
            w.wake_by_ref();
            me.wakes += 1;
        }
        phase(&mut ha, 0, &mut me.wakes);
        phase(&mut hb, 0, &mut me.wakes);
        phase(&mut hb, 1, &mut me.wakes);
        phase(&mut ha, 1, &mut me.wakes);
        me.ha = Some(ha);
        me.hb = Some(hb);
        match outcome {
            0 => Poll::Pending,
            1 => Poll::Ready(Some(val)),
            _ => Poll::Ready(None),
        }
    }
}

fn stream_object(star: bool) {
    let mut cnt = Cnt { live: 1, wakes: 0, bad: false, clones: 0 };
    let orig = unsafe { Waker::from_raw(RawWaker::new(&mut cnt as *mut Cnt as *const (), &VT)) };
    let outcome: u8 = nd::any();
    nd::assume(outcome < 3);
    let val: u32 = nd::any();
    nd::cover!(outcome == 0, "Pending");
    nd::cover!(outcome == 1, "Ready(Some)");
    nd::cover!(outcome == 2, "Ready(None)");
    let mut slots = Slots { ha: None, hb: None, wakes: 0 };
    let st = St { slots: &mut slots, outcome, val, star };
    {
        let mut obj = trait_obj!(st as Stream);
        let mut cx = Context::from_waker(&orig);
        let r = Pin::new(&mut obj).poll_next(&mut cx);
        match r {
            Poll::Pending => assert!(outcome == 0),
            Poll::Ready(Some(v)) => assert!(outcome == 1 && v == val, "item crosses the boundary unaltered"),
            Poll::Ready(None) => assert!(outcome == 2),
        }
    }
    let mut wakes = slots.wakes;
    let mut ha = slots.ha.take().unwrap();
    let mut hb = slots.hb.take().unwrap();
    nd::cover!(ha.alive || hb.alive, "a waker retained after the poll");
    phase(&mut ha, 2, &mut wakes);
    phase(&mut hb, 2, &mut wakes);
    let c = unsafe { &*(&cnt as *const Cnt) };
    assert!(!ha.alive && !hb.alive);
    assert!(!c.bad, "nothing touches the original after all clones of it are gone");
    assert!(c.live == 1, "every clone taken of the caller's waker is released exactly once");
    assert!(c.wakes == wakes, "one wake of the original per wake");
    assert!(c.clones == if star { 2 } else { 1 });
    core::mem::forget(orig);
}

nd::harnesses! {
    #[kani::unwind(3)] fn c19_stream_object_chain2() { stream_object(false) }
    #[kani::unwind(3)] fn c19_stream_object_star2() { stream_object(true) }
}

pub const TABLES: &[&[(&str, fn())]] = &[TABLE];
