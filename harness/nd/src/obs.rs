//! Observers shared by the harness crates: a payload type whose construction and destruction are
//! counted, so that "moved exactly once / dropped exactly once / never dropped twice" become
//! assertions over counters.

pub static mut LIVE: i32 = 0;
pub static mut DROPS: u32 = 0;
pub static mut MADE: u32 = 0;

const TAG_LIVE: u32 = 0x600D_600D;
const TAG_DEAD: u32 = 0xDEAD_DEAD;

pub fn reset() {
    unsafe {
        LIVE = 0;
        DROPS = 0;
        MADE = 0;
    }
}
pub fn live() -> i32 {
    unsafe { LIVE }
}
pub fn drops() -> u32 {
    unsafe { DROPS }
}
pub fn made() -> u32 {
    unsafe { MADE }
}

/// Drop-counted payload. `val` is data the harness compares; `tag` detects a second drop or a
/// drop of memory that never held a `Pay`.
#[derive(Debug)]
pub struct Pay {
    pub val: u32,
    tag: u32,
}

impl Pay {
    pub fn new(val: u32) -> Self {
        unsafe {
            LIVE += 1;
            MADE += 1;
        }
        Pay { val, tag: TAG_LIVE }
    }
    pub fn is_live(&self) -> bool {
        self.tag == TAG_LIVE
    }
}

impl Clone for Pay {
    fn clone(&self) -> Self {
        assert!(self.tag == TAG_LIVE, "clone of a dead Pay");
        Pay::new(self.val)
    }
}

impl PartialEq for Pay {
    fn eq(&self, o: &Self) -> bool {
        self.val == o.val
    }
}

impl Eq for Pay {}

impl Drop for Pay {
    fn drop(&mut self) {
        assert!(self.tag == TAG_LIVE, "Pay dropped twice (or a never-constructed Pay dropped)");
        self.tag = TAG_DEAD;
        unsafe {
            LIVE -= 1;
            DROPS += 1;
        }
    }
}


/// Counted context: a `Clone + Send + Sync + 'static` type whose clones and drops are counted in
/// statics (stands in for the `CArc` that keeps a plugin library loaded; std's Arc drop glue is
/// two orders of magnitude more expensive for CBMC and is not what C07 is about).
pub static mut CTX_LIVE: i32 = 0;
pub static mut CTX_CLONES: u32 = 0;
pub static mut CTX_DROPS: u32 = 0;
/// set by the harness once control is back in the caller after a consuming call
pub static mut CTX_RETURNED: bool = true;
/// set if the context count hit its floor while a consuming call was still in progress
pub static mut CTX_EARLY_RELEASE: bool = false;
pub static mut CTX_FLOOR: i32 = 0;

pub fn ctx_reset() {
    unsafe {
        CTX_LIVE = 0;
        CTX_CLONES = 0;
        CTX_DROPS = 0;
        CTX_RETURNED = true;
        CTX_EARLY_RELEASE = false;
        CTX_FLOOR = 0;
    }
}
pub fn ctx_live() -> i32 {
    unsafe { CTX_LIVE }
}

pub struct Ctx {
    tag: u32,
}
impl Ctx {
    pub fn new() -> Ctx {
        unsafe { CTX_LIVE += 1 };
        Ctx { tag: TAG_LIVE }
    }
}
impl Clone for Ctx {
    fn clone(&self) -> Ctx {
        assert!(self.tag == TAG_LIVE, "clone of a dead context");
        unsafe {
            CTX_LIVE += 1;
            CTX_CLONES += 1;
        }
        Ctx { tag: TAG_LIVE }
    }
}
impl Drop for Ctx {
    fn drop(&mut self) {
        assert!(self.tag == TAG_LIVE, "context dropped twice");
        self.tag = TAG_DEAD;
        unsafe {
            CTX_LIVE -= 1;
            CTX_DROPS += 1;
            if !CTX_RETURNED && CTX_LIVE <= CTX_FLOOR {
                CTX_EARLY_RELEASE = true;
            }
        }
    }
}
unsafe impl Send for Ctx {}
unsafe impl Sync for Ctx {}
