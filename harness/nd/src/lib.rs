//! `nd` - nondeterministic inputs for harness bodies.
//!
//! Under the Kani compiler (`cfg(kani)`), `nd::any::<T>()` is `kani::any()`: a fresh symbolic
//! value decided by the solver. In a native build the same call pops the next value off a byte
//! queue that the replay driver filled from a Kani concrete-playback trace, so the very same
//! harness body is the replayer of its own counterexamples against the real (natively compiled)
//! cglue code.
//!
//! Composite inputs (arrays) are always drawn element by element so that the order and number of
//! `kani::any()` calls - which is what concrete playback reports - is the same in both modes.

#![allow(clippy::missing_safety_doc)]
#![allow(static_mut_refs)]

pub mod obs;

pub trait Nd: Sized {
    fn nd() -> Self;
}

#[cfg(kani)]
mod imp {
    use super::Nd;
    macro_rules! prim { ($($t:ty),*) => { $( impl Nd for $t { #[inline(always)] fn nd() -> Self { kani::any() } } )* } }
    prim!(u8, u16, u32, u64, usize, i8, i16, i32, i64, isize, bool);

    #[inline(always)]
    pub fn assume(c: bool) {
        kani::assume(c)
    }
}

#[cfg(not(kani))]
mod imp {
    use super::Nd;
    use std::cell::RefCell;
    use std::collections::VecDeque;

    thread_local! {
        static QUEUE: RefCell<VecDeque<Vec<u8>>> = RefCell::new(VecDeque::new());
    }

    /// Fill the replay queue: one byte vector per `any()` call, in call order.
    pub fn set_queue(q: Vec<Vec<u8>>) {
        QUEUE.with(|c| *c.borrow_mut() = q.into());
    }

    pub fn remaining() -> usize {
        QUEUE.with(|c| c.borrow().len())
    }

    fn pop(n: usize) -> Vec<u8> {
        let v = QUEUE.with(|c| c.borrow_mut().pop_front());
        match v {
            Some(mut v) => {
                // Kani reports exactly size_of::<T>() bytes; be tolerant and zero-extend.
                v.resize(n, 0);
                v
            }
            // values the solver did not constrain are reported as absent: use zero
            None => vec![0; n],
        }
    }

    macro_rules! prim { ($($t:ty),*) => { $( impl Nd for $t { fn nd() -> Self {
        let b = pop(core::mem::size_of::<$t>());
        let mut a = [0u8; core::mem::size_of::<$t>()];
        a.copy_from_slice(&b);
        <$t>::from_le_bytes(a)
    } } )* } }
    prim!(u8, u16, u32, u64, usize, i8, i16, i32, i64, isize);

    impl Nd for bool {
        fn nd() -> Self {
            pop(1)[0] & 1 == 1
        }
    }

    /// A violated assumption in a replay means the trace does not belong to this harness body
    /// (or the queue is misaligned): stop with a distinguished exit code.
    pub fn assume(c: bool) {
        if !c {
            eprintln!("nd: assumption violated during replay");
            std::process::exit(3);
        }
    }
}

pub use imp::*;

impl<T: Nd, const N: usize> Nd for [T; N] {
    #[inline(always)]
    fn nd() -> Self {
        core::array::from_fn(|_| T::nd())
    }
}

#[inline(always)]
pub fn any<T: Nd>() -> T {
    T::nd()
}

/// `any()` constrained to `lo..=hi`.
#[inline(always)]
pub fn range(lo: usize, hi: usize) -> usize {
    let v: usize = any();
    assume(v >= lo && v <= hi);
    v
}

/// Vacuity witness: under Kani a `kani::cover!`, natively nothing.
#[macro_export]
macro_rules! cover {
    ($c:expr, $m:literal) => {{
        #[cfg(kani)]
        kani::cover!($c, $m);
        #[cfg(not(kani))]
        {
            let _ = $c;
        }
    }};
}

/// Declares a family of harnesses. Each `fn name() { .. }` becomes a `#[kani::proof]` under Kani
/// (attributes written on it, e.g. `#[kani::unwind(5)]`, apply only there) and an ordinary public
/// function natively; `TABLE` lists them for the replay binary.
#[macro_export]
macro_rules! harnesses {
    ($( $(#[$m:meta])* fn $name:ident() $body:block )*) => {
        $(
            #[cfg_attr(kani, kani::proof)]
            $(#[cfg_attr(kani, $m)])*
            pub fn $name() $body
        )*
        pub const TABLE: &[(&str, fn())] = &[$((stringify!($name), $name as fn())),*];
    };
}

/// Replay entry point shared by the harness crates' `replay` binaries.
/// usage: replay <harness> <file with one line of comma-separated bytes per any() call>
#[cfg(not(kani))]
pub fn replay_main(tables: &[&[(&str, fn())]]) {
    let args: Vec<String> = std::env::args().collect();
    if args.len() < 2 {
        for t in tables {
            for (n, _) in t.iter() {
                println!("{}", n);
            }
        }
        return;
    }
    let name = &args[1];
    let mut q = Vec::new();
    if args.len() > 2 {
        let txt = std::fs::read_to_string(&args[2]).expect("read byte file");
        for line in txt.lines() {
            let line = line.trim();
            if line.starts_with('#') {
                continue;
            }
            let v: Vec<u8> = line
                .split(',')
                .filter(|s| !s.trim().is_empty())
                .map(|s| s.trim().parse::<u8>().expect("byte"))
                .collect();
            q.push(v);
        }
    }
    set_queue(q);
    for t in tables {
        for (n, f) in t.iter() {
            if n == name {
                f();
                println!("nd: harness {} completed without failure (queue left: {})", n, remaining());
                return;
            }
        }
    }
    eprintln!("nd: no such harness {}", name);
    std::process::exit(4);
}
