"""Per-property check specifications (which harness queries decide which property, at which bounds)."""
import os

LEAK = ["--memory-leak-check"]

KANI_ASSUME = [
    "Kani 0.68 / CBMC 6.11 / CaDiCaL are sound for the compiled MIR within the stated unwinding bounds (unwinding "
    "assertions stay on: a too-small bound fails, it never truncates silently)",
    "Kani models the dev profile, a sequential machine, an allocator that never fails and ignores alignment",
    "the harness crate is compiled by the Kani compiler against /repo's current working tree (path dependency); "
    "nothing is transcribed from cglue",
]

PROPS = {}

PROPS["C12"] = {
    "crate": "rt",
    "groups": [
        {"id": "views",
         "quick": ["c12::c12_sliceref_u8_4", "c12::c12_sliceref_u64_4", "c12::c12_sliceref_zst_4", "c12::c12_zst_slices_of_any_length", "c12::c12_sliceref_t3_4",
                   "c12::c12_slices_t3_any_address",
                   "c12::c12_slicemut_u8_4", "c12::c12_slicemut_u64_4", "c12::c12_slicemut_zst_4", "c12::c12_slicemut_t3_4",
                   "c12::c12_utf8_decision_4", "c12::c12_utf8_decision_after_rewrite_3", "c12::c12_str_rt_4",
                   "c12::c12_coption_value", "c12::c12_option_result_wide_payloads", "c12::c12_coption_moves", "c12::c12_cresult_value", "c12::c12_cresult_moves",
                   "c12::c12_ctup", "c12::c12_negative_twin"],
         "thorough_adds": ["c12::c12_sliceref_u8_6", "c12::c12_sliceref_u64_6", "c12::c12_sliceref_t3_6",
                           "c12::c12_slicemut_u8_6", "c12::c12_slicemut_u64_6", "c12::c12_slicemut_t3_6",
                           "c12::c12_utf8_decision_5", "c12::c12_str_rt_5"],
         "timeout": 1500},
    ],
    "negative": ["c12::c12_negative_twin"],
    "bounds": "slice length 0..=4 (thorough 0..=6) symbolic, all element values symbolic, element types {u8,u64,ZST,"
              "3-byte repr(C) struct}; UTF-8 decision for ALL byte strings of length <= 4 (thorough <= 5) through the three "
              "checked conversions; COption/CResult/CTup with symbolic variant and full-range payloads, drop-counted payload",
    "outside": "longer slices/strings; element types not listed; serde impls; Debug/Display formatting",
    "assumptions": KANI_ASSUME + [
        "reference UTF-8 acceptor written from RFC 3629 (harness/rt/src/common.rs::ref_utf8) is the oracle for the str decision",
        "into_str/into_mut_str are unchecked by contract: only address/length/bytes identity is asserted for them, on inputs "
        "assumed valid by the reference acceptor",
    ],
}

PROPS["C13"] = {
    "crate": "rt",
    "groups": [
        {"id": "codes",
         "quick": ["c13::c13_encode_decode_u64", "c13::c13_decode_reads_slot_only_on_zero", "c13::c13_payload_moved_once",
                   "c13::c13_unit_and_fmt_errors", "c13::c13_io_error_all_os_codes", "c13::c13_io_error_non_os",
                   "c13::c13_negative_twin"],
         "timeout": 900},
        {"id": "e2e", "crate": "gen",
         "quick": ["c13e::c13e_entry_shapes", "c13e::c13e_trait_and_method_markers", "c13e::c13e_payload_shapes", "c13e::c13e_display_object_reports_fmt_errors", "c_r7::r7_int_result_with_wrapped_payload_is_int_coded", "c13e::c13e_roundtrip", "c13e::c13e_io_codes", "c13e::c13e_vtable_level", "c13e::c13e_negative_twin"],
         "timeout": 900},
    ],
    "negative": ["c13::c13_negative_twin", "c13e::c13e_negative_twin"],
    "bounds": "Ok/Err symbolic; u64/u32 payloads and the pre-filled slot sentinel full range; ALL 2^32 i32 OS error codes; "
              "6 enumerated non-OS ErrorKind constructors; end-to-end generated int_result methods are decided in the gen "
              "crate (see harnesses prefixed c13e_)",
    "outside": "user-defined IntError types; io::Error values carrying a boxed custom error (their drop glue is forgotten)",
    "assumptions": KANI_ASSUME + [
        "decoded io::Error values are mem::forget-ten at the end of the harness (drop glue over a symbolic repr explodes)",
    ],
}

PROPS["C14"] = {
    "crate": "rt",
    "groups": [
        {"id": "wellformed",
         "quick": ["c14::c14_from_str_3", "c14::c14_from_string_3", "c14::c14_from_bytes_3", "c14::c14_clone_2", "c14::c14_clone_from_2", "c14::c14_eq_hash_str_2",
                   "c14::c14_eq_hash_mixed_2", "c14::c14_cstr_borrowed_4", "c14::c14_cstr_borrowed_5", "c14::c14_cstr_borrowed_6", "c14::c14_display_produces_the_text",
                   "c14::c14_negative_twin"],
         "thorough_adds": ["c14::c14_from_str_4", "c14::c14_from_string_4", "c14::c14_from_bytes_4", "c14::c14_clone_3", "c14::c14_clone_from_3",
                           "c14::c14_eq_hash_str_3", "c14::c14_eq_hash_mixed_3"],
         "cbmc_args": LEAK, "timeout": 2400},
    ],
    "negative": ["c14::c14_negative_twin"],
    "bounds": "ALL valid-UTF-8 inputs of length 0..=3 (thorough 0..=4) for From<&str>, From<String>, From<&[u8]> (every byte "
              "symbolic: alphabet = NUL, ASCII, every whole multi-byte sequence that fits); pairs of inputs <= 2 (thorough 3) "
              "bytes for ==/Hash; borrowed C strings of <= 3 (thorough 4) bytes + NUL; CBMC memory-leak check on; "
              "Kani's __rust_dealloc model asserts the freed size equals the allocated size",
    "outside": "inputs longer than 4 bytes (the scanning loops' trip count grows with the input); serde; Display/Debug",
    "assumptions": KANI_ASSUME + [
        "inputs are assumed valid UTF-8 by the independent acceptor (the property quantifies over valid UTF-8 only)",
        "hashing is observed through a harness-defined order-sensitive Hasher",
    ],
}

def _c10_extra(prop, tier):
    """The static precondition of the 'on any number of threads' clause: CArc / CArcSome may cross or be shared between
    threads only if the Arc they wrap may (SMT over the impl clauses, rustc as oracle - C09's machinery)."""
    import sys as _sys
    _sys.path.insert(0, os.path.join(os.path.dirname(os.path.dirname(os.path.abspath(__file__))), "smt"))
    import c09
    r = c09.wrapper_soundness(("CArc", "CArcSome"))
    return {"coverage": {"send_sync_wrapper_soundness": {"queries": r["queries"], "rustc_cross_check": r.get("rustc"),
                                                         "solver_time_s": round(r["solver_s"], 3)}},
            "violations": [("%s is %s although Arc<T> is not (model %s, confirmed by rustc)" % (q["rule"][8:], q["marker"], q["model"]), q)
                           for q in r["violations"]],
            "inconclusive": r["inconclusive"]}


PROPS["C10"] = {
    "crate": "rt",
    "extra": _c10_extra,
    "groups": [
        {"id": "arc",
         "quick": ["c10::c10_pool_k2", "c10::c10_pool_k3", "c10::c10_from_value_last_handle_drops", "c10::c10_empty_is_inert",
                   "c10::c10_zero_sized_value_with_destructor", "c10::c10_last_handle_with_weak_observer",
                   "c10::c10_foreign_functions_used", "c16::c16_carc_view_overaligned_opaque_clone", "c10::c10_negative_twin"],
         "thorough_adds": ["c10::c10_pool_k4"],
         "timeout": 3000},
        # the same code as the RELEASE profile compiles it: with debug assertions off, whatever sits inside debug_assert!
        # (or behind cfg(debug_assertions)) is not executed - an ownership transfer hidden there exists in the dev profile only
        {"id": "arc_no_debug_assertions",
         "quick": ["c10::c10_pool_k2", "c10::c10_from_value_last_handle_drops", "c10::c10_last_handle_with_weak_observer",
                   "c10::c10_foreign_functions_used"],
         "rustflags": "-C debug-assertions=off", "timeout": 1500},
    ],
    "negative": ["c10::c10_negative_twin"],
    "bounds": "every history of k = 2 and 3 (thorough 4) operations, each chosen symbolically from 12 operation kinds {clone, clone_from, repeated into_opaque, "
              "take, drop, transpose both ways, swap, CArcSome clone, into_arc + from Option<Arc>, into_opaque, opaque clone, "
              "opaque drop}, on a pool of 2 typed handle slots + 1 opaque slot sharing one allocation, observed through a "
              "retained std Arc's strong_count and the payload's drop counter; symbolic payload value; both drop orders; the k = 2 pool and "
              "the last-handle / foreign-function harnesses a second time compiled with -C debug-assertions=off (what the release "
              "profile executes of debug_assert! / cfg(debug_assertions) code)",
    "outside": "threads / concurrent schedules (Kani models a sequential machine; the Send/Sync impls are C09's subject); "
               "histories longer than 4; more than 3 simultaneously live handles",
    "assumptions": KANI_ASSUME + ["std::sync::Arc's atomics are modelled sequentially"],
}

def _c15_extra(prop, tier):
    """The C side of callbacks and iterators: the helper snippets every header emitted by cglue-bindgen carries (buffer
    iterator, static collect callback) - CBMC on the C text produced by the real tool (C17's machinery), gcc as replay."""
    import sys as _sys
    _sys.path.insert(0, os.path.join(os.path.dirname(os.path.dirname(os.path.abspath(__file__))), "c17"))
    import c17
    r = c17.helper_checks()
    out = {"coverage": {"c_helper_snippets": {"cbmc_properties": r["props"], "solver_time_s": round(r["secs"], 2), "harness": r["harness"],
                                              "what": "buf_iter_next over buffers of symbolic length 0..=3 and contents; cb_collect_dynamic_base across its first growth (66 items); "
                                                      "cb_collect_static_base with symbolic capacity 0..=3 and 0..=4 offered items"}},
           "violations": [], "inconclusive": []}
    if r["error"] or not r.get("has_helper_tests"):
        out["inconclusive"].append("C helper snippets not decided: %s" % (r["error"] or "helpers not found in the emitted header"))
    for f in r["failed"]:
        if f["gcc_replay_fails"] or f["check"]["id"].find("pointer") >= 0 or f["check"]["id"].find("bounds") >= 0:
            out["violations"].append(("C helper: %s" % f["check"]["desc"], f))
        else:
            out["inconclusive"].append("C helper counterexample did not replay: %s" % f["check"]["desc"])
    return out


PROPS["C15"] = {
    "crate": "rt",
    "extra": _c15_extra,
    "groups": [
        {"id": "feed",
         "quick": ["c15::c15_feed_into_closure_4", "c15::c15_feed_into_mut_closure_4", "c15::c15_extend_closure_4",
                   "c15::c15_collect_vec_3", "c15::c15_collect_extend_3", "c15::c15_collect_zero_sized_items", "c15::c15_call_forwards",
                   "c15::c15_feed_twice_same_callback", "c15::c15_feed_borrowed_source_takes_only_what_it_offers", "c15::c15_collect_vec_beyond_capacity",
                   "c15::c15_items_dropped_once", "c15::c15_citer_same_items_4", "c15::c15_citer_interleave_4",
                   "c15::c15_citer_items_owned_once", "c15::c15_citer_unbounded_source", "c15::c15_citer_not_fused_source", "c15::c15_citer_provided_methods_owned_once", "c15::c15_negative_twin"],
         "thorough_adds": ["c15::c15_feed_into_closure_6", "c15::c15_feed_into_mut_closure_6", "c15::c15_extend_closure_6",
                           "c15::c15_collect_vec_4", "c15::c15_collect_extend_4"],
         "timeout": 1500},
        {"id": "heap", "quick": ["c15::c15_vec_to_vec_moves"], "cbmc_args": LEAK, "timeout": 1500},
    ],
    "negative": ["c15::c15_negative_twin"],
    "bounds": "all item sequences of length 0..=4 (thorough 6) with symbolic items, every stop position (never/first/middle/"
              "last), sinks {closure, &mut Vec, Extend collection}, drivers {feed_into, feed_into_mut, Extend::extend, call}; "
              "CIterator over all slice sources of length 0..=4, symbolic number of pulls through the wrapper before it is "
              "dropped, interleaved with direct use of the source; drop-counted items (<= 3)",
    "outside": "longer sequences; panicking closures; zero-sized iterator state (see DESIGN.md, separately reported)",
    "assumptions": KANI_ASSUME,
}

PROPS["C19"] = {
    "crate": "rt",
    "groups": [
        {"id": "skeletons",
         "quick": ["c19::c19_chain2", "c19::c19_star2", "c19::c19_chain3", "c19::c19_mixed3_late_clone",
                   "c19::c19_borrowed_only", "c19::c19_clone_end_clone", "c19::c19_chain2_caller_waker_dropped_first", "c19::c19_chain2_waker_without_data_pointer",
                   "c19::c19_future_object_chain2", "c19::c19_future_object_star2",
                   "c19::c19_negative_twin"],
         "cbmc_args": LEAK, "timeout": 1800},
        {"id": "stream", "crate": "fut", "quick": ["c19_stream_object_chain2", "c19_stream_object_star2"],
         "cbmc_args": LEAK, "timeout": 1800},
    ],
    "negative": ["c19::c19_negative_twin"],
    "bounds": "enumerated derivation skeletons of <= 3 foreign wakers (chain2, star2, chain3, mixed tree with a late clone, "
              "borrowed-only, and chain2/star2 inside the poll of a boxed future driven through the GENERATED Future glue of "
              "trait_obj!(.. as Future) with symbolic Ready/Pending and output, and of a boxed stream through the generated Stream glue "
              "(cglue feature futures) with symbolic Pending / Ready(Some) / Ready(None)); on each skeleton ALL histories over: per handle the phase (of 3, the last after with_waker "
              "returned) in which it ends, by drop or by wake-by-value, wake_by_ref per handle and phase, wake_by_ref on the "
              "borrowed waker, order inside the last phase; CBMC leak check on (the BaseArc block is freed exactly once)",
    "outside": "other threads (Kani is sequential; BaseArc's atomics are modelled sequentially); more than 3 foreign handles; "
               "Stream/Sink glue beyond the waker conversion",
    "assumptions": KANI_ASSUME + [
        "the caller's waker is a harness-defined RawWaker over a counter record {live, wakes, clones, touched-after-dead}",
        "skeletons are enumerated because a symbolic 'which handle exists' makes CBMC fan out over all function pointers",
    ],
}

import json as _json
_C11 = _json.load(open(os.path.join(os.path.dirname(os.path.dirname(os.path.abspath(__file__))), "harness/rt/c11_names.json")))


def _c11(names):
    return ["c11::" + n for n in names]


_OOB = ["c11::c11_insert_oob_n0_s0", "c11::c11_insert_oob_n2_s0", "c11::c11_insert_oob_n2_s1",
        "c11::c11_remove_oob_n0_s0", "c11::c11_remove_oob_n2_s0", "c11::c11_remove_oob_n2_s1"]

PROPS["C11"] = {
    "crate": "rt",
    "groups": [
        {"id": "step", "quick": _c11(_C11["step_q"]) + _c11(_C11["misc"]) + _OOB + ["c11::c11_negative_twin"] +
         # "its buffer is always grown and freed through the functions stored in it": a vector fabricated with foreign
         # reserve/drop functions over non-heap memory (shared with C05)
         ["c05::c05_foreign_cvec_i0", "c05::c05_foreign_cvec_i1", "c05::c05_foreign_cvec_i2",
          # any shape up to capacity 40: operations that need no growth keep buffer and capacity
          "c05::c05_foreign_cvec_any_shape_no_growth"] +
         # zero-sized elements with a destructor; clone_from (whatever its implementation)
         ["c11x::c11x_zero_sized_elements_with_destructor", "c11x::c11x_clone_from_drops_the_surplus"],
         "thorough_adds": _c11(_C11["step_t"]), "timeout": 1800, "mem_gb": 10, "cbmc_args": LEAK},
        {"id": "seq", "quick": _c11(_C11["seq2_q"]), "thorough_adds": _c11(_C11["seq2_t"]) + _c11(_C11["seq3_t"]),
         "timeout": 1800, "mem_gb": 10},
        # the inductive step again as the RELEASE profile compiles it (debug_assert! / cfg(debug_assertions) code absent):
        # the exact-capacity and one-spare shapes of the u8 vector and the foreign any-shape vector
        {"id": "step_no_debug_assertions",
         "quick": ["c11::c11_step_u8_n0_s0", "c11::c11_step_u8_n1_s0", "c11::c11_step_u8_n2_s0", "c11::c11_step_u8_n2_s1",
                   "c05::c05_foreign_cvec_any_shape_no_growth"],
         "rustflags": "-C debug-assertions=off", "timeout": 900, "mem_gb": 10, "cbmc_args": LEAK},
    ],
    "negative": ["c11::c11_negative_twin"],
    "expect_panic": dict(
        [(h, {"fail_desc": "index <= self.len", "fail_fn": "CVec::<u8>::insert", "unreachable_fn": ["::reserve", "TempVec", "cglue_reserve_vec"]}) for h in _OOB if "insert" in h] +
        [(h, {"fail_desc": "index < self.len", "fail_fn": "CVec::<u8>::remove", "unreachable_fn": ["::reserve", "TempVec", "cglue_reserve_vec"]}) for h in _OOB if "remove" in h]),
    "bounds": "inductive step: ONE symbolic operation (kind, index, value, amount all symbolic) out of {push, pop, insert, remove, "
              "reserve(<=3), clone, write through DerefMut} from every enumerated state shape len 0..=2 (thorough 0..=4) x spare "
              "capacity {0,1,2} x element type {u8, u64, zero-sized, heap-owning drop-counted}, post-state compared with an array "
              "model and dropped under Kani's size-matched dealloc model; all 49 two-operation kind sequences with symbolic "
              "arguments from the exact-capacity shape (thorough: 196 two-op and 125 three-op sequences, two shapes, two element "
              "types); out-of-range insert/remove for every index beyond the length; four u8 step shapes and the foreign "
              "any-shape vector (capacity 0..=40) again compiled with -C debug-assertions=off",
    "outside": "len > 4; sequences longer than 3 beyond what the inductive step implies; allocation failure; serde impls",
    "assumptions": KANI_ASSUME + [
        "representation invariant used for the inductive step: (data,len,capacity) are the raw parts of a live Vec<T> - exactly "
        "what CVec::from establishes; re-established by the post-check (contents, length, capacity >= len, size-matched free)",
        "reference model is a fixed array + length maintained by the harness",
        "Kani cannot observe state after a panic: 'panics without modifying it' is decided as 'the range assertion is the only "
        "failing check and every assertion-type check in the growth path is unreachable'; the native replay form observes the "
        "vector after catch_unwind",
    ],
}

def _c16_pre(tier):
    import subprocess, sys
    rc = subprocess.call([sys.executable, os.path.join(os.path.dirname(os.path.abspath(__file__)), "..", "tools", "gen_c16_views.py")])
    if rc != 0:
        raise SystemExit(3)


def _c16_extra(prop, tier):
    """The C side of 'box and arc: release': the *_drop helpers emitted by the real cglue-bindgen (with the ctx_arc_drop /
    cont_box_drop snippets they call) release the instance once, the context once, through the object's own pointers,
    null-guarded, and the instance BEFORE the context - CBMC on the emitted C text (C17's machinery), gcc as replay."""
    import sys as _sys
    _sys.path.insert(0, os.path.join(os.path.dirname(os.path.dirname(os.path.abspath(__file__))), "c17"))
    import c17
    r = c17.helper_checks("drop")
    out = {"coverage": {"c_drop_helpers": {"cbmc_properties": r["props"], "solver_time_s": round(r["secs"], 2), "harness": r["harness"],
                                           "what": "objects Box+CArc and Box without context of model obj_box_arc: *_drop helpers"}},
           "violations": [], "inconclusive": []}
    if r["error"]:
        out["inconclusive"].append("C drop helpers not decided: %s" % r["error"])
    for f in r["failed"]:
        if f["gcc_replay_fails"]:
            out["violations"].append(("C drop helper: %s" % f["check"]["desc"], f))
        else:
            out["inconclusive"].append("C drop helper counterexample did not replay: %s" % f["check"]["desc"])
    return out


_LAYOUT_SEED_FLAGS = "-Zrandomize-layout -Zlayout-seed=%d" % (1 + int(os.environ.get("VERIF_SEED", "0") or 0) % 1000)

PROPS["C16"] = {
    "crate": "rt",
    "pre": _c16_pre,
    "extra": _c16_extra,
    "groups": [
        {"id": "views",
         "quick": ["c16::c16_cbox_view", "c16::c16_carc_view", "c16::c16_carc_view_overaligned_opaque_clone", "c16::c16_slices_u8", "c16::c16_slices_u64", "c16::c16_slices_t3",
                   "c16::c16_cvec_u8_exact", "c16::c16_cvec_u64_exact", "c16::c16_cvec_u64_spare", "c16::c16_cvec_t3_empty",
                   "c16::c16_callback_view", "c16::c16_citerator_view", "c16::c16_citerator_view_droppable_items", "c16::c16_views_made_by_c", "c16::c16_cslicebox_view_released_by_c",
                   "c05::c05_foreign_cvec_i0", "c10::c10_foreign_functions_used", "c16::c16_tags", "c16::c16_negative_twin"],
         "cbmc_args": LEAK, "timeout": 1200},
        # the published object container: instance, context, temporary storage (generated code, hence the gen crate)
        {"id": "object_container", "crate": "gen", "quick": ["c04::c04_container_order_with_context_and_ret_tmp",
                                                             "c04::c04_object_with_context_words", "c04::c04_object_words_and_sizes"],
         "timeout": 600},
        # the same views with the compiler told to SHUFFLE every layout it is free to choose (-Zrandomize-layout, seed from
        # VERIF_SEED): a published type that lost (or only conditionally has) its repr(C)/repr(transparent) coincides with its
        # C declaration in an ordinary build and stops doing so here
        {"id": "views_layout_seed",
         "quick": ["c16::c16_cbox_view", "c16::c16_carc_view", "c16::c16_slices_u8", "c16::c16_slices_t3", "c16::c16_cvec_u64_spare",
                   "c16::c16_callback_view", "c16::c16_citerator_view", "c16::c16_views_made_by_c", "c16::c16_tags"],
         "rustflags": _LAYOUT_SEED_FLAGS, "timeout": 1200},
        # thorough: two more layout seeds
        {"id": "views_layout_seed_b",
         "thorough": ["c16::c16_cbox_view", "c16::c16_carc_view", "c16::c16_slices_u8", "c16::c16_slices_t3", "c16::c16_cvec_u64_spare",
                      "c16::c16_callback_view", "c16::c16_citerator_view", "c16::c16_views_made_by_c", "c16::c16_tags"],
         "rustflags": _LAYOUT_SEED_FLAGS.replace("layout-seed=", "layout-seed=7"), "timeout": 1200},
        {"id": "views_layout_seed_c",
         "thorough": ["c16::c16_cbox_view", "c16::c16_carc_view", "c16::c16_slices_u8", "c16::c16_slices_t3", "c16::c16_cvec_u64_spare",
                      "c16::c16_callback_view", "c16::c16_citerator_view", "c16::c16_views_made_by_c", "c16::c16_tags"],
         "rustflags": _LAYOUT_SEED_FLAGS.replace("layout-seed=", "layout-seed=13"), "timeout": 1200},
    ],
    "negative": ["c16::c16_negative_twin"],
    "bounds": "each runtime wrapper reinterpreted as its C view (views for CBox, CArc, CSliceRef, Callback, CIterator generated from "
              "examples/pregen-headers/bindings.h on every run; CSliceMut, CVec, COption, CResult written from the statement) with "
              "symbolic contents; element types {u8, u64, 3-byte struct}; operations a C caller performs: release, clone, read, "
              "write, grow (reserve_fn with symbolic amount <= 3), append, invoke, advance; tags read as C int at offset 0, payload "
              "at the C offset",
    "outside": "release-profile layout (Kani models the dev profile; repr(C) does not depend on the profile - assumption); the C++ "
               "header; the C-side drop/clone snippets emitted by cglue-bindgen are decided with C17's machinery",
    "assumptions": KANI_ASSUME + [
        "function-pointer words of a view are transmuted at the call site to the ABI-identical Rust spelling of the published C "
        "signature (CBMC resolves indirect calls by signature)",
        "repr(C) layout is independent of the optimisation profile",
    ],
}

PROPS["C05"] = {
    "crate": "rt",
    "groups": [
        {"id": "foreign",
         "quick": ["c05::c05_foreign_cbox", "c05::c05_foreign_cbox_without_drop_fn", "c05::c05_foreign_cvec_i0", "c05::c05_foreign_cvec_i1", "c05::c05_foreign_cvec_i2",
                   "c05::c05_foreign_cvec_any_shape_no_growth",
                   "c05::c05_foreign_cslicebox", "c05::c05_foreign_callback", "c05::c05_foreign_iterator",
                   "c10::c10_foreign_functions_used",
                   # a vector that starts empty still carries its creator's grow and release functions
                   "c16::c16_cvec_t3_empty", "c05::c05_negative_twin"],
         "timeout": 1200},
        # a generated opaque object whose vtable was made by "another module" (mock entries): every call of the host-side
        # glue - borrowing and consuming - reaches exactly the entries captured in the object (shared with C07)
        {"id": "foreign_vtable", "crate": "gen", "quick": ["c07::c07_caller_glue_holds_context_across_consuming_call",
                                                          # the context (the loaded module) outlives the instance's destructor
                                                          "c07::c07_instance_destroyed_before_context_released",
                                                          "c07::c07_group_instance_destroyed_before_context_released",
                                                          # a consumed box gives its storage back (into_inner), an empty slice
                                                          # argument keeps its (non-null) address for a peer built with checks on
                                                          "c06::c06_cbox_paths", "c02::c02_args_slices"],
         "cbmc_args": LEAK, "timeout": 900},
        # two modules that each expand the same group definition must agree on its layout: the order of the vtable words
        # is a function of the trait names alone (4 mandatory + 2 optional traits; an order that depended on the expanding
        # process - hash seed - would match the name order only by chance)
        {"id": "layout_by_names", "crate": "gen", "quick": ["c08x::c08x_mandatory_and_optional_word_order"], "timeout": 600},
        # values fabricated by the plugin role through the C declarations, consumed by a host whose compiler shuffles every
        # layout it is free to choose (the other module of the pair was built with another layout seed)
        {"id": "foreign_layout_seed",
         "quick": ["c05::c05_foreign_cbox", "c05::c05_foreign_cvec_i1", "c05::c05_foreign_cslicebox", "c05::c05_foreign_callback",
                   "c05::c05_foreign_iterator"],
         "rustflags": _LAYOUT_SEED_FLAGS, "timeout": 1200},
        {"id": "container_layout_seed", "crate": "gen",
         "quick": ["c04::c04_object_with_context_words", "c04::c04_container_order_with_context_and_ret_tmp", "c04::c04_group_words"],
         "rustflags": _LAYOUT_SEED_FLAGS, "timeout": 900},
        # (a struct with two sized fields keeps its declared order under one seed out of two: a second and third seed)
        {"id": "container_layout_seed_b", "crate": "gen",
         "quick": ["c04::c04_object_with_context_words", "c04::c04_container_order_with_context_and_ret_tmp", "c04::c04_group_words"],
         "rustflags": _LAYOUT_SEED_FLAGS.replace("layout-seed=", "layout-seed=20"), "timeout": 900},
        {"id": "container_layout_seed_c", "crate": "gen",
         "quick": ["c04::c04_object_with_context_words", "c04::c04_container_order_with_context_and_ret_tmp", "c04::c04_group_words"],
         "rustflags": _LAYOUT_SEED_FLAGS.replace("layout-seed=", "layout-seed=30"), "timeout": 900},
    ],
    "negative": ["c05::c05_negative_twin"],
    "bounds": "two-role model inside one build: values fabricated through their C view by a plugin role with its own function "
              "pointers over NON-HEAP memory (CBox, CArc, CVec over an 8-slot arena - and, for operations that need no growth, a vector of any capacity 0..=40 and length 0..=capacity -, CSliceBox, callback, iterator), then used only "
              "through cglue's public API by the host role; symbolic payloads, operation choice, stop position, item count <= 4; "
              "insertion index enumerated {0,1,2}",
    "outside": "the property's real quantifier - pairs of builds by different compiler versions, optimisation levels, repr(Rust) "
               "layout seeds and global allocators, and real dynamic loading - cannot be encoded (Kani verifies one crate graph "
               "compiled once); only the clause 'memory owned by such a value is always released by the module that allocated it' "
               "and 'all cross-module calls go through the captured function pointers' is claimed",
    "assumptions": KANI_ASSUME + [
        "a host-allocator free/realloc of plugin memory would be flagged by CBMC because that memory is a stack object",
        "CBMC 6.11 mis-models memmove with symbolic offset/length on a stack array of u64 (spurious, non-replaying "
        "counterexample): the foreign-CVec insertion index is therefore enumerated",
    ],
}

_GC = _json.load(open(os.path.join(os.path.dirname(os.path.dirname(os.path.abspath(__file__))), "harness/gencorp/names.json")))


def _gc_subset(offset):
    """a seed-rotated third of the generated single-method-trait corpus for the quick tier"""
    seed = int(os.environ.get("VERIF_SEED", "0") or 0)
    return [n for i, n in enumerate(_GC) if (i + seed + offset) % 3 == 0]


PROPS["C01"] = {
    "crate": "gen",
    "groups": [
        {"id": "core",
         "quick": ["c01::c01_reader_box_k3", "c01::c01_reader_ref_k3", "c01::c01_reader_mut_k3", "c01::c01_reader_arc_k3",
                   "c01::c01_reader_ctxbox_k3", "c01::c01_counter_box_k3", "c01::c01_counter_mut_k3", "c01::c01_counter_ctxbox_k3",
                   "c01::c01_consume_box_k2", "c01::c01_consume_ctxbox_k2", "c01::c01_group_consume", "c01::c01_group_box_k3",
                   "c01::c01_group_cast_k2", "c01::c01_group_mut_k3", "c01::c01_generic_and_lifetime_traits",
                   "c01::c01_two_borrowed_results_alive", "c01::c01_group_partial_impl", "c01::c01_overridden_defaults_and_marker_scope",
                   # call equivalence also means: arguments arrive as a direct call would deliver them (address of an empty slice
                   # included), and an integer-coded result with a droppable payload is moved out exactly once, nothing on Err
                   "c02::c02_args_slices", "c02::c02_args_mutable", "c02::c02_strings_multibyte", "c02::c02_returns", "c13e::c13e_roundtrip",
                   "c06::c06_zero_sized_payload_with_destructor", "c_r7::r7_cast_operand_once_and_borrowed_result_follows_state",
                   "c07::c07_clone_cast_selfreturn", "c01::c01_negative_twin"],
         "thorough_adds": ["c01::c01_reader_box_k4", "c01::c01_reader_ref_k4", "c01::c01_reader_arc_k4", "c01::c01_counter_box_k4",
                           "c01::c01_counter_mut_k4", "c01::c01_counter_ctxbox_k4", "c01::c01_consume_box_k3",
                           "c01::c01_consume_ctxbox_k3", "c01::c01_group_box_k4", "c01::c01_group_cast_k3", "c01::c01_group_mut_k4"],
         "timeout": 3000},
        {"id": "corpus", "crate": "gencorp", "quick": _gc_subset(0), "thorough": list(_GC), "timeout": 900},
        # an error value that a direct call returns must come back through the object, not abort inside the glue:
        # every i32 OS code of io::Error through the integer encoding (shared with C13)
        {"id": "int_err", "crate": "rt", "quick": ["c13::c13_io_error_all_os_codes"], "timeout": 900},
    ],
    "negative": ["c01::c01_negative_twin"],
    "bounds": "every call sequence of length 3 (thorough 4) with the operation and all arguments symbolic at every step, symbolic "
              "initial state; return values compared after every call, full state incl. call log (calls, last method id, argument "
              "digest) after every step; enumerated corpus: a 5-method &self trait (incl. extern \"C\" method, slice and Option "
              "arguments), a 9-method mixed-receiver trait (&self, &mut self, Pin<&mut Self>, Pin<&Self>, int_result, mutable "
              "slice, Option swap, skip_func), a trait with a by-value method, a generic trait, a lifetime-parameterised trait; "
              "containers Box / &mut / & / CArcSome / Box+context; single-trait object, group, as_ref!/as_mut! views, cast!, "
              "into!, cast back (From); plus a GENERATED corpus of 176 single-method traits covering pairwise receiver "
              "{&self,&mut self,self,Pin<&Self>,Pin<&mut Self>} x 12 argument shapes x 9 return shapes (one call each, "
              "symbolic state and arguments; quick tier: a seed-rotated third)",
    "outside": "the 'programs' quantifier is bounded by the enumerated corpus (the generator itself - a syn/quote program over "
               "heap token trees - is not executed symbolically); sequences longer than 4 (the per-step state equality is an "
               "inductive argument a reader can make, it is not claimed); custom_impl / vtbl_only methods (excluded by the "
               "statement); panics",
    "assumptions": KANI_ASSUME + [
        "cglue-macro / cglue-gen are compiled for the host from /repo's working tree and RUN on the corpus when the harness "
        "crate is compiled: CBMC executes the generator's actual output",
        "oracle: the direct trait call on a twin with the same symbolic initial state",
    ],
}

PROPS["C02"] = {
    "crate": "gen",
    "groups": [
        {"id": "shapes",
         "quick": ["c02::c02_args_slices", "c02::c02_args_mutable", "c02::c02_args_values", "c02::c02_args_callback_iterator", "c02::c02_iterator_argument_not_fused", "c02::c02_strings_multibyte", "c02::c02_optional_slice_and_str_arguments",
                   "c02::c02_returns", "c02::c02_boxed_object", "c02::c02_npo_options", "c02::c02_narrow_options_and_zst_mut_slices", "c02::c02_negative_twin",
                   # integer-coded results with an io::Error payload (every i32 OS code) - shared with C13
                   "c13e::c13e_io_codes", "c13e::c13e_roundtrip", "c13e::c13e_payload_shapes",
                   "c13e::c13e_display_object_reports_fmt_errors", "c01::c01_overridden_defaults_and_marker_scope"],
         "timeout": 1800},
        {"id": "corpus", "crate": "gencorp", "quick": _gc_subset(1), "thorough": list(_GC), "timeout": 900},
        # an iterator passed on by reference is still the caller's iterator afterwards: nothing beyond what was offered is taken
        {"id": "feed", "crate": "rt", "quick": ["c15::c15_feed_borrowed_source_takes_only_what_it_offers", "c15::c15_extend_closure_4", "c15::c15_collect_vec_3",
                                                "c12::c12_zst_slices_of_any_length"], "timeout": 900},
    ],
    "negative": ["c02::c02_negative_twin"],
    "bounds": "shapes {&[u8], &[u64], &[ZST], &mut [u8], &str (symbolic ASCII + fixed multi-byte + empty), Option<u32>, Option<&u64>, "
              "Result<u32,u8>, impl Into<u64>, repr(C) struct by value, &mut u64, two slices, OpaqueCallback<u8>, CIterator<u8>} in "
              "argument position and {&[u8], &[u64], &mut [u8], &str, Option<u32>, Option<&u64>, Result<u64,u8>, int-coded "
              "Result<u64,()> and Result<(),()>, struct, extreme i64} in return position; slice lengths 0..=4 and all contents, "
              "variants, integers symbolic; the implementor records address/length/elements of what it received; plus the "
              "generated single-method-trait corpus of C01 (every argument/return shape in every receiver position the "
              "generator accepts, pairwise; quick tier: a seed-rotated third)",
    "outside": "shapes not listed; element types beyond {u8,u64,ZST}; strings are ASCII-symbolic plus fixed multi-byte samples "
               "(into_str is unchecked: validity is the caller's contract)",
    "assumptions": KANI_ASSUME,
}

PROPS["C04"] = {
    "crate": "gen",
    "groups": [
        {"id": "layout",
         "quick": ["c04::c04_vtbl_counter", "c04::c04_vtbl_reader_consume_gen", "c04::c04_group_words",
                   "c04::c04_object_words_and_sizes", "c04::c04_vtbl_only_in_declaration_order",
                   "c04::c04_group_alias_name_order", "c04::c04_object_with_context_words",
                   "c04::c04_vtbl_provided_methods_have_slots", "c04::c04_overaligned_type_argument",
                   "c08x::c08x_mandatory_and_optional_word_order", "c08x::c08x_external_and_local_traits_in_one_list",
                   "c08::c08_owned_list_of_four_argument_registration",
                   "c_r7::r7_vtbl_order_with_type_between_methods", "c_r7::r7_opaque_aliases_have_the_concrete_size",
                   "c04::c04_container_order_with_context_and_ret_tmp", "c04::c04_noncontiguous_cast_and_ret_tmp_order",
                   "c04::c04_negative_twin"],
         "timeout": 900},
        # the generated structs are repr(C) in EVERY build configuration: the same harnesses with the compiler shuffling all
        # layouts it is free to choose (a struct that lost - or only conditionally has - its repr(C) moves here)
        {"id": "layout_seed",
         "quick": ["c04::c04_vtbl_counter", "c04::c04_vtbl_reader_consume_gen", "c04::c04_group_words",
                   "c04::c04_object_words_and_sizes", "c04::c04_vtbl_only_in_declaration_order",
                   "c04::c04_group_alias_name_order", "c04::c04_object_with_context_words",
                   "c04::c04_vtbl_provided_methods_have_slots", "c04::c04_overaligned_type_argument",
                   "c08x::c08x_mandatory_and_optional_word_order", "c08x::c08x_external_and_local_traits_in_one_list",
                   "c04::c04_container_order_with_context_and_ret_tmp", "c04::c04_noncontiguous_cast_and_ret_tmp_order"],
         "rustflags": _LAYOUT_SEED_FLAGS, "timeout": 900},
        {"id": "layout_seed_b",
         "quick": ["c04::c04_vtbl_counter", "c04::c04_vtbl_reader_consume_gen", "c04::c04_group_words",
                   "c04::c04_object_words_and_sizes", "c04::c04_vtbl_only_in_declaration_order",
                   "c04::c04_group_alias_name_order", "c04::c04_object_with_context_words",
                   "c04::c04_vtbl_provided_methods_have_slots", "c04::c04_overaligned_type_argument",
                   "c08x::c08x_mandatory_and_optional_word_order", "c08x::c08x_external_and_local_traits_in_one_list",
                   "c04::c04_container_order_with_context_and_ret_tmp", "c04::c04_noncontiguous_cast_and_ret_tmp_order"],
         "rustflags": _LAYOUT_SEED_FLAGS.replace("layout-seed=", "layout-seed=20"), "timeout": 900},
    ],
    "negative": ["c04::c04_negative_twin"],
    "bounds": "raw words of 5 corpus vtables vs the per-name getters in declaration order (size == n words, entries distinct and "
              "non-null, #[skip_func] method not exported); raw words of a boxed group with a visible context: mandatory vtable, "
              "optional vtables in name order with SYMBOLIC presence (null iff absent, equal to that trait's vtable when present), "
              "instance pointer, drop function, context; a trait with a #[vtbl_only] method between regular ones and a "
              "#[skip_func] method, every slot CALLED by position; a group with aliased generic members whose alias and trait "
              "name sort differently, each optional word called by position; a single-trait object with a visible context; concrete vs opaque form bit-identical; cast result has the group's "
              "words; size/align equalities",
    "outside": "the clause 'expanding the same definitions again, in another process or crate, yields the same layout' "
               "(determinism of a proc-macro under fresh hash seeds - no solver query expresses it); definitions outside the corpus",
    "assumptions": KANI_ASSUME,
}

PROPS["C06"] = {
    "crate": "gen",
    "groups": [
        {"id": "lifecycle",
         "quick": ["c06::c06_object_paths", "c06::c06_group_paths", "c06::c06_clone_and_self_return",
                   "c06::c06_borrowing_objects_do_not_drop", "c06::c06_boxed_parent_borrowed_child", "c06::c06_cbox_paths",
                   "c06::c06_cslicebox", "c06::c06_cslicebox_plain_data", "c06::c06_large_payload",
                   "c06::c06_lifetime_bound_mut_return_first_call", "c06::c06_kf_borrowed_child_context_clone_never_released",
                   "c13e::c13e_roundtrip", "c06::c06_zero_sized_payload_with_destructor", "c06::c06_negative_twin"],
         "cbmc_args": LEAK, "timeout": 1800},
    ],
    "known": {
        "c06::c06_kf_borrowed_child_context_clone_never_released": {"key": "C06/borrowed-wrapped-return/context-clone",
                                                                     "match": ["borrowed child: the context clone held by the temporary wrapper is released"]},
    },
    "negative": ["c06::c06_negative_twin"],
    "bounds": "symbolic lifecycle-path selector over {drop, move, consuming call, by-value call returning a wrapped object, owned "
              "child object / group in both drop orders, cast hit and miss (enabled set symbolic), cast back, into!, as_ref!/"
              "as_mut!, Clone extension and Self-returning method in both drop orders, by-reference and by-mutable-reference "
              "objects incl. borrowed wrapped returns, CBox constructors / opaque / into_inner, CSliceBox of length 0..=3}; "
              "drop-counted payloads (second drop fails in the harness); CBMC leak check; size-matched free",
    "outside": "unwinding through a panicking method; alignment part of the layout (Kani's allocator model ignores alignment); "
               "paths longer than 3 lifecycle operations",
    "assumptions": KANI_ASSUME,
}

PROPS["C07"] = {
    "crate": "gen",
    "groups": [
        {"id": "context",
         "quick": ["c07::c07_owned_tree", "c07::c07_arc_context_tree", "c07::c07_opaque_overaligned_arc_context_tree", "c07::c07_group_consuming_call", "c07::c07_group_instance_destroyed_before_context_released",
                   "c_r7::r7_owned_child_through_borrowed_child_keeps_context", "c_r7::r7_zero_sized_counted_context", "c07::c07_borrowed_child_moved_out_and_dropped", "c07::c07_consuming_call_keeps_context", "c07::c07_clone_cast_selfreturn",
                   "c07::c07_caller_glue_holds_context_across_consuming_call", "c07::c07_consuming_call_returning_wrapped_result",
                   "c07::c07_failed_cast_and_int_result_child", "c07::c07_instance_destroyed_before_context_released",
                   "c07::c07_kf_borrowed_obj_ref", "c07::c07_kf_borrowed_obj_mut", "c07::c07_kf_borrowed_group_ref",
                   "c07::c07_negative_twin"],
         "cbmc_args": LEAK, "timeout": 1800},
    ],
    "negative": ["c07::c07_negative_twin"],
    "known": {
        "c07::c07_kf_borrowed_obj_ref": {"key": "C07/borrowed-wrapped-return/obj_ref", "match": ["borrowed child (obj_ref): context count back"]},
        "c07::c07_kf_borrowed_obj_mut": {"key": "C07/borrowed-wrapped-return/obj_mut", "match": ["borrowed child (obj_mut): context count back"]},
        "c07::c07_kf_borrowed_group_ref": {"key": "C07/borrowed-wrapped-return/group_ref", "match": ["borrowed child (group_ref): context count back"]},
    },
    "bounds": "trees of <= 3 objects sharing one counted context: symbolic sequences of 3 operations over {obtain owned child, "
              "obtain owned group child, drop a child}, symbolic ending {drop, finish, into_leaf}, both child drop orders; "
              "count == 1 + holders after every step and back to the start at the end; by-value calls: the implementor "
              "records the count seen inside the method body and while the consumed value is dropped inside the callee; "
              "clone / Self return / cast / into of a group with context; the CALLER-side glue of a by-value call isolated by "
              "giving the object a foreign vtable whose entry plays the callee (after the callee released the reference it "
              "received, the caller's clone must still be alive); instance destroyed before the object's own context clone is "
              "released. Borrowed-child scenarios are separate known-finding harnesses",
    "outside": "std::sync::Arc / CArc as the context type (the counted context exercises the same generated clone/move plumbing; "
               "CArc itself is C10's subject); trees of more than 3 objects",
    "assumptions": KANI_ASSUME + ["context = harness-defined Clone + Send + Sync type counting clones/drops in statics"],
}

PROPS["C08"] = {
    "crate": "gen",
    "groups": [
        {"id": "casts",
         "quick": ["c08::c08_g3_box", "c08::c08_g3_mut", "c08::c08_ref_container", "c08::c08_impl_types_g3", "c08::c08_aliased_generic_members",
                   "c08::c08_owned_list_of_four_argument_registration",
                   "c08x::c08x_mandatory_and_optional_word_order", "c08x::c08x_casts_dispatch_to_the_right_trait",
                   "c08x::c08x_external_and_local_traits_in_one_list", "c08x::c08x_group_without_mandatory_traits",
                   "c_r7::r7_partial_aliased_instantiations",
                   "c08::c08_negative_twin"],
         "thorough_adds": ["c08::c08_g4_box", "c08::c08_g4_mut"],
         "timeout": 3000},
    ],
    "negative": ["c08::c08_negative_twin"],
    "bounds": "groups with n = 3 (thorough also n = 4) optional traits; the ENABLED set is symbolic (all 2^n sets in one query, "
              "construction through Group::new) or selected symbolically among 8 implementing types generated through "
              "cglue_impl_group!; every non-empty requested subset (7 / 15 generated methods, selected symbolically) x {check, "
              "as_ref, as_mut, cast + upcast, into}; Box and &mut containers, & container with read-only traits; same-instance "
              "dispatch checked through per-trait constants mixed with the symbolic instance state",
    "outside": "n > 4; aliased generic instantiations of one trait inside a group",
    "assumptions": KANI_ASSUME,
}

PROPS["C20"] = {
    "crate": "lc",
    "groups": [
        {"id": "algebra", "quick": ["c20_and_all_pairs", "c20_and_triples_associative", "c20_predicates", "c20_negative_twin"],
         "timeout": 600},
        {"id": "wrapper", "quick": ["wrapper::c20_compare_layouts_wrapper", "wrapper::c20_check_uses_own_layout_as_expected",
                                    "wrapper::c20_wrapper_negative_twin"],
         "kani_args": ["-Z", "stubbing"], "timeout": 600},
    ],
    "negative": ["c20_negative_twin", "wrapper::c20_wrapper_negative_twin"],
    "bounds": "all 9 ordered pairs and all 27 triples of verdicts through VerifyLayout::and (symbolic selectors), the strict and "
              "relaxed predicates for all 3 verdicts, the repr(u8) discriminants; compare_layouts and VerifyLayout::check::<u32> "
              "for every combination of {missing, layout of u32, layout of u64} x {same} x {the comparison accepts, rejects}",
    "outside": "the accept/reject decision of abi_stable's own recursive comparison and the layout descriptions the derive emits "
               "for generated structs (identical interfaces => Valid; any single-edit variant => never Valid): the Kani compiler "
               "panics while generating code for abi_stable::check_layout_compatibility (kani-compiler/src/intrinsics.rs:243); "
               "hand-translating abi_stable's checker is out of reach, and running it on concrete pairs would be enumeration of "
               "concrete runs, not this technique",
    "assumptions": KANI_ASSUME + ["abi_stable::abi_stability::check_layout_compatibility is replaced (kani::stub, -Z stubbing) by a "
                                 "function of the same signature returning an arbitrary verdict and recording its arguments; natively "
                                 "(replay) the real comparison runs on the u32/u64 layouts"],
}

def _run_c09(prop, spec, tier):
    import importlib, sys as _sys
    _sys.path.insert(0, os.path.join(os.path.dirname(os.path.dirname(os.path.abspath(__file__))), "smt"))
    import c09
    return c09.main(prop, tier)


PROPS["C09"] = {"engine": "smt", "level": "other", "run": _run_c09}

def _run_c17(prop, spec, tier):
    import sys as _sys
    _sys.path.insert(0, os.path.join(os.path.dirname(os.path.dirname(os.path.abspath(__file__))), "c17"))
    import c17
    return c17.main(prop, tier)


PROPS["C17"] = {"engine": "cbmc-c", "level": "translation_validation", "run": _run_c17}

# <<SPECS-END>>

from props_text import MANIFEST_TEXT, NOT_YET  # noqa: E402
