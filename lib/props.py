"""Per-property check specifications (which harness queries decide which property, at which bounds)."""

LEAK = ["--memory-leak-check"]

KANI_ASSUME = [
    "Kani 0.68 / CBMC 6.11 / CaDiCaL are sound for the compiled MIR within the stated unwinding bounds (unwinding "
    "assertions stay on: a too-small bound fails, it never truncates silently)",
    "Kani models the dev profile, a sequential machine, an allocator that never fails and ignores alignment",
    "the harness crate is compiled by the Kani compiler against /repo's current working tree (path dependency); "
    "nothing is transcribed from cglue",
]

PROPS = {}

PROPS["C12"] = {
    "crate": "rt",
    "groups": [
        {"id": "views",
         "quick": ["c12::c12_sliceref_u8_4", "c12::c12_sliceref_u64_4", "c12::c12_sliceref_zst_4", "c12::c12_sliceref_t3_4",
                   "c12::c12_slicemut_u8_4", "c12::c12_slicemut_u64_4", "c12::c12_slicemut_zst_4", "c12::c12_slicemut_t3_4",
                   "c12::c12_utf8_decision_4", "c12::c12_str_rt_4",
                   "c12::c12_coption_value", "c12::c12_coption_moves", "c12::c12_cresult_value", "c12::c12_cresult_moves",
                   "c12::c12_ctup", "c12::c12_negative_twin"],
         "thorough_adds": ["c12::c12_sliceref_u8_6", "c12::c12_sliceref_u64_6", "c12::c12_sliceref_t3_6",
                           "c12::c12_slicemut_u8_6", "c12::c12_slicemut_u64_6", "c12::c12_slicemut_t3_6",
                           "c12::c12_utf8_decision_5", "c12::c12_str_rt_5"],
         "timeout": 1500},
    ],
    "negative": ["c12::c12_negative_twin"],
    "bounds": "slice length 0..=4 (thorough 0..=6) symbolic, all element values symbolic, element types {u8,u64,ZST,"
              "3-byte repr(C) struct}; UTF-8 decision for ALL byte strings of length <= 4 (thorough <= 5) through the three "
              "checked conversions; COption/CResult/CTup with symbolic variant and full-range payloads, drop-counted payload",
    "outside": "longer slices/strings; element types not listed; serde impls; Debug/Display formatting",
    "assumptions": KANI_ASSUME + [
        "reference UTF-8 acceptor written from RFC 3629 (harness/rt/src/common.rs::ref_utf8) is the oracle for the str decision",
        "into_str/into_mut_str are unchecked by contract: only address/length/bytes identity is asserted for them, on inputs "
        "assumed valid by the reference acceptor",
    ],
}

PROPS["C13"] = {
    "crate": "rt",
    "groups": [
        {"id": "codes",
         "quick": ["c13::c13_encode_decode_u64", "c13::c13_decode_reads_slot_only_on_zero", "c13::c13_payload_moved_once",
                   "c13::c13_unit_and_fmt_errors", "c13::c13_io_error_all_os_codes", "c13::c13_io_error_non_os",
                   "c13::c13_negative_twin"],
         "timeout": 900},
    ],
    "negative": ["c13::c13_negative_twin"],
    "bounds": "Ok/Err symbolic; u64/u32 payloads and the pre-filled slot sentinel full range; ALL 2^32 i32 OS error codes; "
              "6 enumerated non-OS ErrorKind constructors; end-to-end generated int_result methods are decided in the gen "
              "crate (see harnesses prefixed c13e_)",
    "outside": "user-defined IntError types; io::Error values carrying a boxed custom error (their drop glue is forgotten)",
    "assumptions": KANI_ASSUME + [
        "decoded io::Error values are mem::forget-ten at the end of the harness (drop glue over a symbolic repr explodes)",
    ],
}

PROPS["C14"] = {
    "crate": "rt",
    "groups": [
        {"id": "wellformed",
         "quick": ["c14::c14_from_str_3", "c14::c14_from_string_3", "c14::c14_from_bytes_3", "c14::c14_clone_2", "c14::c14_eq_hash_str_2",
                   "c14::c14_eq_hash_mixed_2", "c14::c14_cstr_borrowed_4", "c14::c14_negative_twin"],
         "thorough_adds": ["c14::c14_from_str_4", "c14::c14_from_string_4", "c14::c14_from_bytes_4", "c14::c14_clone_3",
                           "c14::c14_eq_hash_str_3", "c14::c14_eq_hash_mixed_3", "c14::c14_cstr_borrowed_5"],
         "cbmc_args": LEAK, "timeout": 2400},
    ],
    "negative": ["c14::c14_negative_twin"],
    "bounds": "ALL valid-UTF-8 inputs of length 0..=3 (thorough 0..=4) for From<&str>, From<String>, From<&[u8]> (every byte "
              "symbolic: alphabet = NUL, ASCII, every whole multi-byte sequence that fits); pairs of inputs <= 2 (thorough 3) "
              "bytes for ==/Hash; borrowed C strings of <= 3 (thorough 4) bytes + NUL; CBMC memory-leak check on; "
              "Kani's __rust_dealloc model asserts the freed size equals the allocated size",
    "outside": "inputs longer than 4 bytes (the scanning loops' trip count grows with the input); serde; Display/Debug",
    "assumptions": KANI_ASSUME + [
        "inputs are assumed valid UTF-8 by the independent acceptor (the property quantifies over valid UTF-8 only)",
        "hashing is observed through a harness-defined order-sensitive Hasher",
    ],
}

# ---------------------------------------------------------------------------------------------
# MANIFEST texts
# ---------------------------------------------------------------------------------------------
BMC = "bounded model checking (Kani/CBMC SAT) of the compiled code with symbolic inputs"

MANIFEST_TEXT = {
    "C12": {
        "level": "Bounded model checking: for every slice length 0..=4 (thorough 6), every element value, every write "
                 "index/value, every byte string of length <= 4 (thorough 5), every variant/payload, the SAT solver shows "
                 "address/length/content identity, the exact UTF-8 accept set, and single-move of payloads. Right level "
                 "because the interesting inputs (UTF-8 boundary classes, empty and ZST slices) are rare points in a "
                 "huge space that a solver covers completely within the bound.",
        "note": "Trusts Kani/CBMC/CaDiCaL and the harness-side RFC 3629 acceptor; lengths beyond the bound are outside the claim.",
        "technique": BMC + "; differential against an independent RFC 3629 acceptor",
    },
    "C13": {
        "level": "Bounded model checking over all Ok/Err values, all u64 payloads/sentinels and all 2^32 OS error codes: "
                 "0 <=> Ok, slot written iff Ok and untouched on Err, decode reads the slot only on 0, shipped error types "
                 "never encode to 0, OS codes round-trip; end-to-end through generated int_result wrappers.",
        "note": "Trusts Kani/CBMC; decoded io::Error values are forgotten (drop glue not explored); user error types outside.",
        "technique": BMC,
    },
    "C14": {
        "level": "Bounded model checking for all valid-UTF-8 inputs up to 3 (thorough 4) bytes incl. NUL anywhere: buffer = "
                 "prefix + one NUL, content equality/hash/clone, no out-of-bounds read, no leak (CBMC leak check) and "
                 "size-matched free (Kani dealloc model). Found the From<&[u8]> defect (fixed in 152e180).",
        "note": "Trusts Kani/CBMC and its allocator model (alignment ignored); longer inputs outside the claim.",
        "technique": BMC + " with memory-leak and dealloc-size checks",
    },
}

NOT_YET = {k: "check under construction at this commit (planned in DESIGN.md section 5); not claimed yet" for k in
           ["C01", "C02", "C04", "C05", "C06", "C07", "C08", "C09", "C10", "C11", "C15", "C16", "C17", "C19", "C20"]}
