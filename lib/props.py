"""Per-property check specifications (which harness queries decide which property, at which bounds)."""
import os

LEAK = ["--memory-leak-check"]

KANI_ASSUME = [
    "Kani 0.68 / CBMC 6.11 / CaDiCaL are sound for the compiled MIR within the stated unwinding bounds (unwinding "
    "assertions stay on: a too-small bound fails, it never truncates silently)",
    "Kani models the dev profile, a sequential machine, an allocator that never fails and ignores alignment",
    "the harness crate is compiled by the Kani compiler against /repo's current working tree (path dependency); "
    "nothing is transcribed from cglue",
]

PROPS = {}

PROPS["C12"] = {
    "crate": "rt",
    "groups": [
        {"id": "views",
         "quick": ["c12::c12_sliceref_u8_4", "c12::c12_sliceref_u64_4", "c12::c12_sliceref_zst_4", "c12::c12_sliceref_t3_4",
                   "c12::c12_slicemut_u8_4", "c12::c12_slicemut_u64_4", "c12::c12_slicemut_zst_4", "c12::c12_slicemut_t3_4",
                   "c12::c12_utf8_decision_4", "c12::c12_str_rt_4",
                   "c12::c12_coption_value", "c12::c12_coption_moves", "c12::c12_cresult_value", "c12::c12_cresult_moves",
                   "c12::c12_ctup", "c12::c12_negative_twin"],
         "thorough_adds": ["c12::c12_sliceref_u8_6", "c12::c12_sliceref_u64_6", "c12::c12_sliceref_t3_6",
                           "c12::c12_slicemut_u8_6", "c12::c12_slicemut_u64_6", "c12::c12_slicemut_t3_6",
                           "c12::c12_utf8_decision_5", "c12::c12_str_rt_5"],
         "timeout": 1500},
    ],
    "negative": ["c12::c12_negative_twin"],
    "bounds": "slice length 0..=4 (thorough 0..=6) symbolic, all element values symbolic, element types {u8,u64,ZST,"
              "3-byte repr(C) struct}; UTF-8 decision for ALL byte strings of length <= 4 (thorough <= 5) through the three "
              "checked conversions; COption/CResult/CTup with symbolic variant and full-range payloads, drop-counted payload",
    "outside": "longer slices/strings; element types not listed; serde impls; Debug/Display formatting",
    "assumptions": KANI_ASSUME + [
        "reference UTF-8 acceptor written from RFC 3629 (harness/rt/src/common.rs::ref_utf8) is the oracle for the str decision",
        "into_str/into_mut_str are unchecked by contract: only address/length/bytes identity is asserted for them, on inputs "
        "assumed valid by the reference acceptor",
    ],
}

PROPS["C13"] = {
    "crate": "rt",
    "groups": [
        {"id": "codes",
         "quick": ["c13::c13_encode_decode_u64", "c13::c13_decode_reads_slot_only_on_zero", "c13::c13_payload_moved_once",
                   "c13::c13_unit_and_fmt_errors", "c13::c13_io_error_all_os_codes", "c13::c13_io_error_non_os",
                   "c13::c13_negative_twin"],
         "timeout": 900},
    ],
    "negative": ["c13::c13_negative_twin"],
    "bounds": "Ok/Err symbolic; u64/u32 payloads and the pre-filled slot sentinel full range; ALL 2^32 i32 OS error codes; "
              "6 enumerated non-OS ErrorKind constructors; end-to-end generated int_result methods are decided in the gen "
              "crate (see harnesses prefixed c13e_)",
    "outside": "user-defined IntError types; io::Error values carrying a boxed custom error (their drop glue is forgotten)",
    "assumptions": KANI_ASSUME + [
        "decoded io::Error values are mem::forget-ten at the end of the harness (drop glue over a symbolic repr explodes)",
    ],
}

PROPS["C14"] = {
    "crate": "rt",
    "groups": [
        {"id": "wellformed",
         "quick": ["c14::c14_from_str_3", "c14::c14_from_string_3", "c14::c14_from_bytes_3", "c14::c14_clone_2", "c14::c14_eq_hash_str_2",
                   "c14::c14_eq_hash_mixed_2", "c14::c14_cstr_borrowed_4", "c14::c14_negative_twin"],
         "thorough_adds": ["c14::c14_from_str_4", "c14::c14_from_string_4", "c14::c14_from_bytes_4", "c14::c14_clone_3",
                           "c14::c14_eq_hash_str_3", "c14::c14_eq_hash_mixed_3", "c14::c14_cstr_borrowed_5"],
         "cbmc_args": LEAK, "timeout": 2400},
    ],
    "negative": ["c14::c14_negative_twin"],
    "bounds": "ALL valid-UTF-8 inputs of length 0..=3 (thorough 0..=4) for From<&str>, From<String>, From<&[u8]> (every byte "
              "symbolic: alphabet = NUL, ASCII, every whole multi-byte sequence that fits); pairs of inputs <= 2 (thorough 3) "
              "bytes for ==/Hash; borrowed C strings of <= 3 (thorough 4) bytes + NUL; CBMC memory-leak check on; "
              "Kani's __rust_dealloc model asserts the freed size equals the allocated size",
    "outside": "inputs longer than 4 bytes (the scanning loops' trip count grows with the input); serde; Display/Debug",
    "assumptions": KANI_ASSUME + [
        "inputs are assumed valid UTF-8 by the independent acceptor (the property quantifies over valid UTF-8 only)",
        "hashing is observed through a harness-defined order-sensitive Hasher",
    ],
}

PROPS["C10"] = {
    "crate": "rt",
    "groups": [
        {"id": "arc",
         "quick": ["c10::c10_pool_k2", "c10::c10_pool_k3", "c10::c10_from_value_last_handle_drops", "c10::c10_empty_is_inert",
                   "c10::c10_foreign_functions_used", "c10::c10_negative_twin"],
         "thorough_adds": ["c10::c10_pool_k4"],
         "timeout": 3000},
    ],
    "negative": ["c10::c10_negative_twin"],
    "bounds": "every history of k = 2 and 3 (thorough 4) operations, each chosen symbolically from 10 operation kinds {clone, "
              "take, drop, transpose both ways, swap, CArcSome clone, into_arc + from Option<Arc>, into_opaque, opaque clone, "
              "opaque drop}, on a pool of 2 typed handle slots + 1 opaque slot sharing one allocation, observed through a "
              "retained std Arc's strong_count and the payload's drop counter; symbolic payload value; both drop orders",
    "outside": "threads / concurrent schedules (Kani models a sequential machine; the Send/Sync impls are C09's subject); "
               "histories longer than 4; more than 3 simultaneously live handles",
    "assumptions": KANI_ASSUME + ["std::sync::Arc's atomics are modelled sequentially"],
}

PROPS["C15"] = {
    "crate": "rt",
    "groups": [
        {"id": "feed",
         "quick": ["c15::c15_feed_into_closure_4", "c15::c15_feed_into_mut_closure_4", "c15::c15_extend_closure_4",
                   "c15::c15_collect_vec_3", "c15::c15_collect_extend_3", "c15::c15_call_forwards",
                   "c15::c15_items_dropped_once", "c15::c15_citer_same_items_4", "c15::c15_citer_interleave_4",
                   "c15::c15_citer_items_owned_once", "c15::c15_citer_unbounded_source", "c15::c15_negative_twin"],
         "thorough_adds": ["c15::c15_feed_into_closure_6", "c15::c15_feed_into_mut_closure_6", "c15::c15_extend_closure_6",
                           "c15::c15_collect_vec_4", "c15::c15_collect_extend_4"],
         "timeout": 1500},
        {"id": "heap", "quick": ["c15::c15_vec_to_vec_moves"], "cbmc_args": LEAK, "timeout": 1500},
    ],
    "negative": ["c15::c15_negative_twin"],
    "bounds": "all item sequences of length 0..=4 (thorough 6) with symbolic items, every stop position (never/first/middle/"
              "last), sinks {closure, &mut Vec, Extend collection}, drivers {feed_into, feed_into_mut, Extend::extend, call}; "
              "CIterator over all slice sources of length 0..=4, symbolic number of pulls through the wrapper before it is "
              "dropped, interleaved with direct use of the source; drop-counted items (<= 3)",
    "outside": "longer sequences; panicking closures; zero-sized iterator state (see DESIGN.md, separately reported)",
    "assumptions": KANI_ASSUME,
}

PROPS["C19"] = {
    "crate": "rt",
    "groups": [
        {"id": "skeletons",
         "quick": ["c19::c19_chain2", "c19::c19_star2", "c19::c19_chain3", "c19::c19_mixed3_late_clone",
                   "c19::c19_borrowed_only", "c19::c19_negative_twin"],
         "cbmc_args": LEAK, "timeout": 1800},
    ],
    "negative": ["c19::c19_negative_twin"],
    "bounds": "enumerated derivation skeletons of <= 3 foreign wakers (chain2, star2, chain3, mixed tree with a late clone, "
              "borrowed-only); on each skeleton ALL histories over: per handle the phase (of 3, the last after with_waker "
              "returned) in which it ends, by drop or by wake-by-value, wake_by_ref per handle and phase, wake_by_ref on the "
              "borrowed waker, order inside the last phase; CBMC leak check on (the BaseArc block is freed exactly once)",
    "outside": "other threads (Kani is sequential; BaseArc's atomics are modelled sequentially); more than 3 foreign handles; "
               "Stream/Sink glue beyond the waker conversion",
    "assumptions": KANI_ASSUME + [
        "the caller's waker is a harness-defined RawWaker over a counter record {live, wakes, clones, touched-after-dead}",
        "skeletons are enumerated because a symbolic 'which handle exists' makes CBMC fan out over all function pointers",
    ],
}

import json as _json
_C11 = _json.load(open(os.path.join(os.path.dirname(os.path.dirname(os.path.abspath(__file__))), "harness/rt/c11_names.json")))


def _c11(names):
    return ["c11::" + n for n in names]


_OOB = ["c11::c11_insert_oob_n0_s0", "c11::c11_insert_oob_n2_s0", "c11::c11_insert_oob_n2_s1",
        "c11::c11_remove_oob_n0_s0", "c11::c11_remove_oob_n2_s0", "c11::c11_remove_oob_n2_s1"]

PROPS["C11"] = {
    "crate": "rt",
    "groups": [
        {"id": "step", "quick": _c11(_C11["step_q"]) + _c11(_C11["misc"]) + _OOB + ["c11::c11_negative_twin"],
         "thorough_adds": _c11(_C11["step_t"]), "timeout": 1800, "mem_gb": 10},
        {"id": "seq", "quick": _c11(_C11["seq2_q"]), "thorough_adds": _c11(_C11["seq2_t"]) + _c11(_C11["seq3_t"]),
         "timeout": 1800, "mem_gb": 10},
    ],
    "negative": ["c11::c11_negative_twin"],
    "expect_panic": dict(
        [(h, {"fail_desc": "index <= self.len", "unreachable_fn": ["::reserve", "TempVec", "cglue_reserve_vec"]}) for h in _OOB if "insert" in h] +
        [(h, {"fail_desc": "index < self.len", "unreachable_fn": ["::reserve", "TempVec", "cglue_reserve_vec"]}) for h in _OOB if "remove" in h]),
    "bounds": "inductive step: ONE symbolic operation (kind, index, value, amount all symbolic) out of {push, pop, insert, remove, "
              "reserve(<=3), clone, write through DerefMut} from every enumerated state shape len 0..=2 (thorough 0..=4) x spare "
              "capacity {0,1,2} x element type {u8, u64, zero-sized, heap-owning drop-counted}, post-state compared with an array "
              "model and dropped under Kani's size-matched dealloc model; all 49 two-operation kind sequences with symbolic "
              "arguments from the exact-capacity shape (thorough: 196 two-op and 125 three-op sequences, two shapes, two element "
              "types); out-of-range insert/remove for every index beyond the length",
    "outside": "len > 4; sequences longer than 3 beyond what the inductive step implies; allocation failure; serde impls",
    "assumptions": KANI_ASSUME + [
        "representation invariant used for the inductive step: (data,len,capacity) are the raw parts of a live Vec<T> - exactly "
        "what CVec::from establishes; re-established by the post-check (contents, length, capacity >= len, size-matched free)",
        "reference model is a fixed array + length maintained by the harness",
        "Kani cannot observe state after a panic: 'panics without modifying it' is decided as 'the range assertion is the only "
        "failing check and every assertion-type check in the growth path is unreachable'; the native replay form observes the "
        "vector after catch_unwind",
    ],
}

def _c16_pre(tier):
    import subprocess, sys
    rc = subprocess.call([sys.executable, os.path.join(os.path.dirname(os.path.abspath(__file__)), "..", "tools", "gen_c16_views.py")])
    if rc != 0:
        raise SystemExit(3)


PROPS["C16"] = {
    "crate": "rt",
    "pre": _c16_pre,
    "groups": [
        {"id": "views",
         "quick": ["c16::c16_cbox_view", "c16::c16_carc_view", "c16::c16_slices_u8", "c16::c16_slices_u64", "c16::c16_slices_t3",
                   "c16::c16_cvec_u8_exact", "c16::c16_cvec_u64_exact", "c16::c16_cvec_u64_spare", "c16::c16_cvec_t3_empty",
                   "c16::c16_callback_view", "c16::c16_citerator_view", "c16::c16_tags", "c16::c16_negative_twin"],
         "cbmc_args": LEAK, "timeout": 1200},
    ],
    "negative": ["c16::c16_negative_twin"],
    "bounds": "each runtime wrapper reinterpreted as its C view (views for CBox, CArc, CSliceRef, Callback, CIterator generated from "
              "examples/pregen-headers/bindings.h on every run; CSliceMut, CVec, COption, CResult written from the statement) with "
              "symbolic contents; element types {u8, u64, 3-byte struct}; operations a C caller performs: release, clone, read, "
              "write, grow (reserve_fn with symbolic amount <= 3), append, invoke, advance; tags read as C int at offset 0, payload "
              "at the C offset",
    "outside": "release-profile layout (Kani models the dev profile; repr(C) does not depend on the profile - assumption); the C++ "
               "header; the C-side drop/clone snippets emitted by cglue-bindgen are decided with C17's machinery",
    "assumptions": KANI_ASSUME + [
        "function-pointer words of a view are transmuted at the call site to the ABI-identical Rust spelling of the published C "
        "signature (CBMC resolves indirect calls by signature)",
        "repr(C) layout is independent of the optimisation profile",
    ],
}

PROPS["C05"] = {
    "crate": "rt",
    "groups": [
        {"id": "foreign",
         "quick": ["c05::c05_foreign_cbox", "c05::c05_foreign_cvec_i0", "c05::c05_foreign_cvec_i1", "c05::c05_foreign_cvec_i2",
                   "c05::c05_foreign_cslicebox", "c05::c05_foreign_callback", "c05::c05_foreign_iterator",
                   "c10::c10_foreign_functions_used", "c05::c05_negative_twin"],
         "timeout": 1200},
    ],
    "negative": ["c05::c05_negative_twin"],
    "bounds": "two-role model inside one build: values fabricated through their C view by a plugin role with its own function "
              "pointers over NON-HEAP memory (CBox, CArc, CVec over an 8-slot arena, CSliceBox, callback, iterator), then used only "
              "through cglue's public API by the host role; symbolic payloads, operation choice, stop position, item count <= 4; "
              "insertion index enumerated {0,1,2}",
    "outside": "the property's real quantifier - pairs of builds by different compiler versions, optimisation levels, repr(Rust) "
               "layout seeds and global allocators, and real dynamic loading - cannot be encoded (Kani verifies one crate graph "
               "compiled once); only the clause 'memory owned by such a value is always released by the module that allocated it' "
               "and 'all cross-module calls go through the captured function pointers' is claimed",
    "assumptions": KANI_ASSUME + [
        "a host-allocator free/realloc of plugin memory would be flagged by CBMC because that memory is a stack object",
        "CBMC 6.11 mis-models memmove with symbolic offset/length on a stack array of u64 (spurious, non-replaying "
        "counterexample): the foreign-CVec insertion index is therefore enumerated",
    ],
}

# <<SPECS-END>>

from props_text import MANIFEST_TEXT, NOT_YET  # noqa: E402
