"""MANIFEST texts per claimed property, and the list of properties not yet claimed."""
BMC = "bounded model checking (Kani/CBMC SAT) of the compiled code with symbolic inputs"

MANIFEST_TEXT = {
    "C12": {
        "level": "Bounded model checking: for every slice length 0..=4 (thorough 6), every element value, every write "
                 "index/value, every byte string of length <= 4 (thorough 5), every variant/payload, the SAT solver shows "
                 "address/length/content identity, the exact UTF-8 accept set, and single-move of payloads. Right level "
                 "because the interesting inputs (UTF-8 boundary classes, empty and ZST slices) are rare points in a "
                 "huge space that a solver covers completely within the bound.",
        "note": "Trusts Kani/CBMC/CaDiCaL and the harness-side RFC 3629 acceptor; lengths beyond the bound are outside the claim.",
        "technique": BMC + "; differential against an independent RFC 3629 acceptor",
    },
    "C13": {
        "level": "Bounded model checking over all Ok/Err values, all u64 payloads/sentinels and all 2^32 OS error codes: "
                 "0 <=> Ok, slot written iff Ok and untouched on Err, decode reads the slot only on 0, shipped error types "
                 "never encode to 0, OS codes round-trip; end-to-end through generated int_result wrappers.",
        "note": "Trusts Kani/CBMC; decoded io::Error values are forgotten (drop glue not explored); user error types outside.",
        "technique": BMC,
    },
    "C14": {
        "level": "Bounded model checking for all valid-UTF-8 inputs up to 3 (thorough 4) bytes incl. NUL anywhere: buffer = "
                 "prefix + one NUL, content equality/hash/clone, no out-of-bounds read, no leak (CBMC leak check) and "
                 "size-matched free (Kani dealloc model). Found the From<&[u8]> defect (fixed in 152e180).",
        "note": "Trusts Kani/CBMC and its allocator model (alignment ignored); longer inputs outside the claim.",
        "technique": BMC + " with memory-leak and dealloc-size checks",
    },
}

MANIFEST_TEXT.update({
    "C10": {
        "level": "Bounded model checking of every sequential history of up to 3 (thorough 4) symbolic operations over a handle "
                 "pool: strong count == live handles after every step, value dropped exactly with the last handle, handles "
                 "deref to the same value, empty handles inert; foreign-constructed handles are only cloned/released through "
                 "the creator's function pointers (non-heap instance, so a host-allocator free would fail CBMC's checks).",
        "note": "Sequential histories only: concurrent schedules are outside what Kani can decide. The static precondition of "
                "the multi-thread clause (CArc/CArcSome are Send/Sync only if the Arc they wrap is) is decided by an auxiliary "
                "SMT query over the impl clauses with rustc as oracle (C09's machinery).",
        "technique": BMC + "; auxiliary SMT entailment query for the Send/Sync impls",
    },
    "C15": {
        "level": "Bounded model checking over all item sequences <= 4 (thorough 6), all stop positions, three sinks and four "
                 "drivers, and CIterator pull/drop/continue interleavings with drop-counted items: invocation count, order, "
                 "reported count, exactly-once ownership.",
        "note": "Trusts Kani/CBMC; sequences beyond the bound and panicking closures are outside. Non-fused sources, borrowed "
                "sources and the provided Iterator methods are included; the C helper snippets of the emitted header (buffer "
                "iterator, static collect callback) are decided by CBMC on the C text the real cglue-bindgen emits.",
        "technique": BMC + "; auxiliary CBMC run on the emitted C helper snippets (gcc replay)",
    },
    "C19": {
        "level": "Bounded model checking of all clone/wake/wake_by_ref/drop histories on enumerated derivation skeletons of <= 3 "
                 "foreign wakers, including wakers retained after the poll: wake count, exactly-once release of every clone "
                 "of the caller's waker, no touch after the last release, BaseArc block freed once. Found the clone-of-clone "
                 "double release (fixed in 8982063).",
        "note": "Sequential only (no threads); skeletons enumerated, histories on them symbolic.",
        "technique": BMC + " on enumerated derivation skeletons",
    },
})

MANIFEST_TEXT.update({
    "C11": {
        "level": "Bounded model checking: an inductive step (one fully symbolic operation from every enumerated state shape, "
                 "post-state checked against an array model and freed under the size-matched dealloc model) plus all short "
                 "operation-kind sequences with symbolic arguments; out-of-range insert/remove decided for every index. Right "
                 "level because CVec bugs live at exact-capacity / index == len / reallocation-then-shift corners.",
        "note": "Heap shapes are enumerated (CBMC cannot take a symbolic-length heap vector across two symbolic steps: 65 GB); "
                "len > 4 and allocation failure are outside.",
        "technique": BMC + "; inductive step over enumerated state shapes, differential against an array model",
    },
})

MANIFEST_TEXT.update({
    "C16": {
        "level": "Bounded model checking: real values with symbolic contents are reinterpreted as C-view structs (generated from the "
                 "published header where it declares the type) and driven purely through fields and function pointers; effects "
                 "(drop counters, strong counts, contents, capacities, tags) must equal the Rust operation's.",
        "note": "Dev-profile layout only; the C++ header is not covered. The view harnesses are run a second time under "
                "-Zrandomize-layout (seed from VERIF_SEED); the emitted C *_drop helpers are decided by CBMC on the C text the real "
                "cglue-bindgen emits.",
        "technique": BMC + "; C-view reinterpretation against the published header; second build with randomized repr(Rust) layouts; "
                           "auxiliary CBMC run on the emitted C drop helpers (gcc replay)",
    },
    "C05": {
        "level": "Narrowed claim, bounded model checking of a two-role model: plugin-fabricated values over non-heap memory with the "
                 "plugin's own function pointers are only ever released / cloned / grown through those pointers, exactly the "
                 "expected number of times with the right arguments; any host-allocator touch fails CBMC's allocator preconditions.",
        "note": "Cross-compiler / cross-build / dynamic-loading part of the property is outside what solver-based checking of one "
                "build can encode and is NOT claimed.",
        "technique": BMC + "; two-role (plugin/host) model with non-heap plugin memory",
    },
})

MANIFEST_TEXT.update({
    "C01": {
        "level": "Bounded model checking of the generator's actual expansion: a direct-call twin and an opaque object are driven by "
                 "the same symbolic call sequence (length 3, thorough 4); results after every call and full state incl. call log "
                 "after every step must agree - wrong dispatch, lost updates and double calls are visible for every value.",
        "note": "Corpus of trait shapes / containers / object forms is enumerated; the generator is not executed symbolically.",
        "technique": BMC + "; differential against direct trait calls on a twin",
    },
    "C02": {
        "level": "Bounded model checking per auto-converted shape: the implementor records exactly what it received (address, "
                 "length, elements, variant, payload), the caller compares with what it sent, both directions, all values within "
                 "lengths 0..=4.",
        "note": "Shapes enumerated; strings symbolic ASCII + fixed multi-byte samples.",
        "technique": BMC,
    },
    "C04": {
        "level": "Bounded model checking: raw machine words of vtables / groups / objects vs per-name accessors (positional vs "
                 "nominal), symbolic optional-vtable presence, concrete/opaque bit identity. The cross-process determinism clause "
                 "is NOT claimed.",
        "note": "Corpus enumerated; dev-profile layout.",
        "technique": BMC + "; raw-word vs accessor comparison",
    },
    "C06": {
        "level": "Bounded model checking over symbolic lifecycle paths with drop-counted payloads, CBMC's memory-leak check and "
                 "Kani's size-matched dealloc model: exactly-once drop, nothing leaked, borrowed things never dropped.",
        "note": "Paths of <= 3 lifecycle operations; panics (unwinding) outside. One open known finding: with an owning context handle "
                "the clone held by the never-dropped temporary wrapper of a borrowed wrapped return is leaked (same root cause as C07's).",
        "technique": BMC + " with memory-leak and dealloc-size checks",
    },
    "C07": {
        "level": "Bounded model checking of context-count balance over symbolic create/child/clone/cast/consume/drop sequences on "
                 "trees of <= 3 objects, and of 'context alive during a by-value call'. Found: borrowed wrapped returns leak one "
                 "context clone per call (open known finding, 3 scenarios).",
        "note": "Counted context type instead of CArc (cost); known-finding scenarios are separate harnesses keyed by role.",
        "technique": BMC,
    },
    "C08": {
        "level": "Bounded model checking with the enabled set symbolic: one query covers all 2^n enabled sets x the symbolically "
                 "selected requested subset x the cast operation: success iff requested is a subset of enabled, same-instance "
                 "dispatch, as_mut visibility, cast back keeps every optional trait.",
        "note": "n <= 4; groups enumerated.",
        "technique": BMC,
    },
})

MANIFEST_TEXT.update({
    "C20": {
        "level": "Narrowed claim, two parts. (1) Verdict algebra: for every pair and triple of verdicts combination is "
                 "Invalid-absorbing and Unknown-dominates-Valid (commutative, associative), predicates agree with their "
                 "definitions. (2) The wrapper around the comparison (compare_layouts, VerifyLayout::check): with abi_stable's "
                 "recursive comparison replaced by a stub returning an arbitrary verdict, a missing description yields Unknown "
                 "without consulting the comparison, two present descriptions yield Valid exactly when it accepts and Invalid "
                 "otherwise, and it is asked with (expected, found) in that order. Exhaustive for these finite domains, decided "
                 "by the solver over symbolic selectors.",
        "note": "abi_stable's own accept/reject decision and the layout descriptions derived for generated structs cannot be "
                "encoded (the Kani compiler ICEs on check_layout_compatibility). Mutants of that part are outside this check.",
        "technique": BMC + " (finite verdict/selector domains; kani::stub for abi_stable's comparison)",
    },
})

MANIFEST_TEXT.update({
    "C09": {
        "engine": "smt",
        "level": "SMT (z3 and cvc5, answers diffed) over the impl clauses extracted from rustdoc JSON of the real crates: per "
                 "opaque-conversion rule and marker, 'exists a payload class such that the opaque form has the marker and the "
                 "concrete form does not' is unsat (rule is safe) or sat (finding, confirmed by rustc's own truth table computed "
                 "in one probe compilation). The encoder's whole truth table is cross-checked against rustc on every run. "
                 "Found 11 (rule, marker) pairs over 6 rules (upstream issue 18): open known findings.",
        "note": "Auto-trait membership is rustc's trait solving, not execution: Kani does not apply, entailment over impl clauses "
                "does. Composite rules (containers, objects, groups) are decided with an abstract instance whose own conversion "
                "is assumed not to add markers. Trusts rustdoc's synthetic impls and the built-in rule table.",
        "technique": "SMT-LIB2 entailment over extracted impl clauses (z3 + cvc5), rustc probe crate as replay oracle",
    },
})

MANIFEST_TEXT.update({
    "C17": {
        "engine": "cbmc-c",
        "level": "Translation validation of the tool's OUTPUT, C mode: API models -> cbindgen-shaped raw headers -> the real "
                 "cglue-bindgen binary (built from /repo) -> generated C harness with mock vtables -> CBMC decides, for all "
                 "argument values and object contents, that each emitted wrapper calls exactly its slot of that object's vtable "
                 "once with container and arguments unchanged and returns its result; consuming wrappers and drop helpers "
                 "release instance and context exactly once with a context clone alive during the call; every vtable entry must "
                 "have a callable wrapper. Found: a function name shared by two traits of one group got only one wrapper (fixed).",
        "note": "C mode only (CBMC's C++ front end cannot take the generated C++); header shapes bounded by the synthesizer's "
                "grammar; wrappers returning the container type are outside.",
        "technique": "CBMC on C harnesses over the header emitted by the real post-processor; gcc replay of counterexamples",
    },
})

NOT_YET = {k: "check under construction at this commit (planned in DESIGN.md section 5); not claimed yet" for k in
           []}
