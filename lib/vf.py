#!/usr/bin/env python3
"""Driver for the solver-based checks of h33p/cglue.

usage: check <ID> [--tier quick|thorough] [--replay <path>] [--keep-going]

exit codes: 0 every query decided and the property held (known findings are printed, not failed)
            1 a counterexample that replayed against the real code: VIOLATION line printed
            2 a counterexample that did not replay (encoding suspect; not reported as violation)
            3 inconclusive (timeout, out of memory, tool error, unwinding bound too small)
"""
import json
import os
import re
import subprocess
import sys
import time
import hashlib

VERIF = os.path.dirname(os.path.dirname(os.path.abspath(__file__)))
REPO = os.environ.get("VERIF_REPO", "/repo")
WORK = os.path.join(VERIF, "work")
sys.path.insert(0, os.path.join(VERIF, "lib"))

ENV = dict(os.environ)
ENV.update({"CARGO_NET_OFFLINE": "true", "CARGO_TERM_COLOR": "never"})
ENV.pop("RUSTUP_TOOLCHAIN", None)


def log(*a):
    print(*a, flush=True)


def sh(cmd, cwd=None, timeout=None, env=None, mem_gb=None, out_path=None):
    """Run a command (list) under an optional address-space cap; returns (rc, output)."""
    pre = ""
    if mem_gb:
        pre = "ulimit -v %d; " % int(mem_gb * 1024 * 1024)
    line = pre + "exec " + " ".join("'" + c.replace("'", "'\\''") + "'" for c in cmd)
    t0 = time.time()
    try:
        p = subprocess.run(["bash", "-c", line], cwd=cwd, env=env or ENV, stdout=subprocess.PIPE,
                           stderr=subprocess.STDOUT, timeout=timeout)
        rc, out = p.returncode, p.stdout.decode("utf-8", "replace")
    except subprocess.TimeoutExpired as e:
        rc, out = 124, (e.stdout or b"").decode("utf-8", "replace") + "\n[vf] TIMEOUT after %ss\n" % timeout
        # make sure no solver keeps running
        subprocess.run(["bash", "-c", "true"])
    if out_path:
        with open(out_path, "w") as f:
            f.write(out)
    return rc, out, time.time() - t0


# --------------------------------------------------------------------------------------------
# Kani runner
# --------------------------------------------------------------------------------------------

def crate_dir(crate):
    return os.path.join(VERIF, "harness", crate)


def prepare_crate(crate):
    """Make the harness crate resolve offline exactly like /repo does: reuse its lock file."""
    d = crate_dir(crate)
    src = os.path.join(REPO, "Cargo.lock")
    dst = os.path.join(d, "Cargo.lock")
    if os.path.exists(src) and not os.path.exists(dst):
        with open(src) as f, open(dst, "w") as g:
            g.write(f.read())


def harness_sources(crate):
    """Map harness name -> (module, unwind bound, doc) by scanning the crate's sources."""
    res = {}
    srcdir = os.path.join(crate_dir(crate), "src")
    for root, _, files in os.walk(srcdir):
        for fn in files:
            if not fn.endswith(".rs"):
                continue
            path = os.path.join(root, fn)
            rel = os.path.relpath(path, srcdir)[:-3].replace(os.sep, "::")
            if rel.endswith("::mod"):
                rel = rel[:-5]
            if rel == "lib":
                rel = ""
            txt = open(path).read()
            for m in re.finditer(r"((?:\s*(?:///[^\n]*|#\[[^\]]*\])\s*\n?)*)\s*(?:pub )?fn (\w+)\(\)\s*\{", txt):
                attrs, name = m.group(1), m.group(2)
                um = re.search(r"kani::unwind\((\d+)\)", attrs)
                doc = " ".join(x.strip()[3:].strip() for x in attrs.splitlines() if x.strip().startswith("///"))
                res[(rel + "::" + name) if rel else name] = {"unwind": int(um.group(1)) if um else None, "doc": doc, "file": path}
    return res


def rf_env(rustflags):
    """Environment and target-dir suffix for a build with extra RUSTFLAGS (own target dir: the flags change every artifact)."""
    if not rustflags:
        return None, ""
    env = dict(ENV)
    env["RUSTFLAGS"] = rustflags
    return env, "-rf"   # one directory whatever the flags are: cargo rebuilds when RUSTFLAGS change, disk use stays bounded


def run_kani(crate, harnesses, cbmc_args=(), kani_args=(), jobs=None, harness_timeout=600, mem_gb=14,
             tag="run", features=None, rustflags=None):
    """Run the given harnesses (full paths, exact) in one cargo-kani invocation.
    Returns (results: {harness: dict}, meta)."""
    prepare_crate(crate)
    d = crate_dir(crate)
    env, suffix = rf_env(rustflags)
    tdir = os.path.join(WORK, "target-" + crate + suffix)
    os.makedirs(tdir, exist_ok=True)
    logdir = os.path.join(WORK, "logs")
    os.makedirs(logdir, exist_ok=True)
    jpath = os.path.join(WORK, "kani-%s-%s-%d.json" % (crate, tag, os.getpid()))
    if os.path.exists(jpath):
        os.remove(jpath)
    jobs = jobs or min(16, max(1, len(harnesses)))
    cmd = ["cargo", "kani", "--lib", "--target-dir", tdir, "-Z", "unstable-options",
           "--harness-timeout", "%ds" % harness_timeout, "--export-json", jpath, "--exact"]
    if features:
        cmd += ["--features", features]
    cmd += ["-j", str(jobs), "--output-format", "terse"]
    for h in harnesses:
        cmd += ["--harness", h]
    cmd += list(kani_args)
    if cbmc_args:
        cmd += ["--cbmc-args"] + list(cbmc_args)
    lpath = os.path.join(logdir, "kani-%s-%s.log" % (crate, tag))
    # wall cap: build + ceil(n/jobs) rounds of harness_timeout, generous
    rounds = (len(harnesses) + jobs - 1) // jobs
    wall = 900 + rounds * (harness_timeout + 30)
    rc, out, secs = sh(cmd, cwd=d, timeout=wall, mem_gb=mem_gb, out_path=lpath, env=env)
    meta = {"cmd": (("RUSTFLAGS='%s' " % rustflags) if rustflags else "") + " ".join(cmd), "rc": rc, "wall_s": round(secs, 2), "log": lpath}
    results = {}
    if "error: could not compile" in out or "error[E" in out:
        meta["build_error"] = "\n".join(l for l in out.splitlines() if l.startswith("error"))[:2000]
    if not os.path.exists(jpath):
        meta["error"] = "no export json (rc=%s)" % rc
        meta["tail"] = out[-3000:]
        return results, meta
    try:
        data = json.load(open(jpath))
    except Exception as e:  # truncated file
        meta["error"] = "bad export json: %s" % e
        return results, meta
    stats = {c["harness_id"]: c.get("cbmc_stats", {}) for c in data.get("cbmc", [])}
    errs = {e["harness_id"]: e for e in data.get("error_details", [])}
    for r in data.get("verification_results", {}).get("results", []):
        hid = r["harness_id"]
        checks = r.get("checks", [])
        failed = [c for c in checks if c["status"] == "Failure" and c["category"] != "cover"]
        undetermined = [c for c in checks if c["status"] == "Undetermined" and c["category"] != "cover"]
        covers = [c for c in checks if c["category"] == "cover"]
        reached = set()
        for c in checks:
            f = (c.get("location") or {}).get("file") or ""
            if f.startswith(REPO + "/"):
                reached.add(re.sub(r"::<.*", "", c.get("function", "")) or os.path.relpath(f, REPO))
        results[hid] = {
            "status": r["status"],
            "duration_ms": r.get("duration_ms"),
            "n_checks": len([c for c in checks if c["category"] != "cover"]),
            "n_failed": len(failed),
            "n_undetermined": len(undetermined),
            "failed": [{"desc": c["description"].strip('"'), "cat": c["category"],
                        "fn": c.get("function"), "loc": "%s:%s" % ((c.get("location") or {}).get("file"),
                                                                   (c.get("location") or {}).get("line"))}
                       for c in failed],
            "covers": [{"desc": c["description"], "status": c["status"]} for c in covers],
            "reached": sorted(reached),
            "repo_asserts": [{"fn": c.get("function") or "", "status": c["status"], "desc": c["description"].strip('"')}
                             for c in checks if c["category"] == "assertion"
                             and ((c.get("location") or {}).get("file") or "").startswith(REPO + "/")],
            "solver_s": (stats.get(hid) or {}).get("runtime_decision_procedure_s"),
            "symex_s": (stats.get(hid) or {}).get("runtime_symex_s"),
            "vccs": (stats.get(hid) or {}).get("vccs_generated"),
            "error": errs.get(hid, {}),
        }
    try:
        os.remove(jpath)
    except OSError:
        pass
    return results, meta


INCONCLUSIVE_CATS = {"unwind", "unsupported_construct", "missing_definition", "internal"}


def classify(res):
    """'pass' | 'fail' (genuine counterexample candidate) | 'inconclusive'."""
    if res is None:
        return "inconclusive"
    if res["status"] == "Success":
        return "pass"
    if res["status"] != "Failure":
        return "inconclusive"
    if not res["failed"]:
        # timeout / OOM / crash are reported as failure without failed checks
        return "inconclusive"
    real = [f for f in res["failed"] if f["cat"] not in INCONCLUSIVE_CATS]
    if not real:
        return "inconclusive"
    # an unwinding failure makes every other verdict of the run unreliable only in the passing
    # direction; a failed assertion found within the bound is still a genuine counterexample
    return "fail"


# --------------------------------------------------------------------------------------------
# Replay
# --------------------------------------------------------------------------------------------

def concrete_playback(crate, harness, cbmc_args=(), features=None, timeout=900, mem_gb=14, kani_args=(), rustflags=None):
    """Ask Kani for concrete values of a failing harness; returns list of (check, [[bytes]...])."""
    d = crate_dir(crate)
    env, suffix = rf_env(rustflags)
    tdir = os.path.join(WORK, "target-" + crate + suffix)
    cmd = ["cargo", "kani", "--lib", "--target-dir", tdir, "--exact", "--harness", harness,
           "-Z", "concrete-playback", "--concrete-playback=print", "-Z", "unstable-options"]
    if features:
        cmd += ["--features", features]
    cmd += list(kani_args)
    if cbmc_args:
        cmd += ["--cbmc-args"] + list(cbmc_args)
    rc, out, _ = sh(cmd, cwd=d, timeout=timeout, mem_gb=mem_gb, env=env,
                    out_path=os.path.join(WORK, "logs", "playback-%s.log" % harness.replace("::", "_")))
    tests = []
    for m in re.finditer(r"/// Check for `([^`]*)`: (.*?)\n.*?let concrete_vals: Vec<Vec<u8>> = vec!\[(.*?)\n\s*\];",
                         out, re.S):
        body = m.group(3)
        vals = []
        for vm in re.finditer(r"vec!\[([^\]]*)\]", body):
            s = vm.group(1).strip()
            vals.append([int(x) for x in s.split(",") if x.strip()] if s else [])
        tests.append({"check": m.group(1) + ": " + m.group(2).strip().strip('"'), "bytes": vals, "is_cover": m.group(1) == "cover"})
    # counterexamples of failed checks first; the witnesses of satisfied cover properties are kept as further candidate
    # inputs (Kani does not always print a test for the failed assertion): a candidate only counts if the native run of
    # the same harness body FAILS on it
    crashed = rc in (124, 137, -9) or "CBMC failed with status" in out or "run out of memory" in out or "Out of memory" in out
    concrete_playback.last_crashed = crashed and not tests
    return [t for t in tests if not t["is_cover"]] + [t for t in tests if t["is_cover"]]


def synthetic_inputs(n_calls=160):
    """Fixed family of input streams for the replay of a counterexample the solver found but could not print."""
    out = []
    for c in (0, 1, 2, 3, 5, 7, 255):
        out.append([[c] * 8 for _ in range(n_calls)])
    x = 0x9E3779B97F4A7C15
    for m in (2, 3, 4, 5, 6, 8, 16, 256):
        for _rep in range(4):
            q = []
            for _ in range(n_calls):
                x = (x * 6364136223846793005 + 1442695040888963407) & (2 ** 64 - 1)
                v = (x >> 33) % m
                hi = ((x >> 20) & 0xFF) if m == 256 else 0
                q.append([v, hi, 0, 0, 0, 0, 0, 0])
            out.append(q)
    return out


def native_replay(crate, harness, bytes_list, features=None, profiles=("dev", "release", "miri"), rustflags=None):
    """Run the same harness body natively with the recorded values.
    Returns (reproduced: bool, how: str, detail)."""
    d = crate_dir(crate)
    name = harness.split("::")[-1]
    rdir = os.path.join(WORK, "replay")
    os.makedirs(rdir, exist_ok=True)
    bpath = os.path.join(rdir, "bytes-%s-%d.txt" % (name, os.getpid()))
    with open(bpath, "w") as f:
        for v in bytes_list:
            f.write(",".join(str(x) for x in v) + "\n")
    tdir = os.path.join(WORK, "target-%s-native" % crate)
    attempts = []
    feat = ["--features", features] if features else []
    if rustflags:
        # a group built with extra (nightly-only) RUSTFLAGS, e.g. a randomized repr(Rust) layout: replay with the nightly
        # toolchain and the same flags; its shuffle need not coincide with the Kani toolchain's for the same seed, so a few
        # other seeds are tried as well
        variants = [rustflags] + [re.sub(r"layout-seed=\d+", "layout-seed=%d" % k, rustflags) for k in (1, 2, 3, 4, 5)]
        for rfv in variants:
            env, suffix = rf_env(rfv)
            cmd = ["cargo", "+nightly", "run", "--offline", "--quiet", "--bin", "replay", "--target-dir", tdir + "-rf"] + feat + ["--", name, bpath]
            rc, out, _ = sh(cmd, cwd=d, timeout=900, env=env)
            attempts.append({"profile": "nightly dev, RUSTFLAGS=" + rfv, "rc": rc, "tail": out[-600:]})
            if rc != 0 and rc not in (3, 4) and "could not compile" not in out:
                return True, "nightly dev, RUSTFLAGS=" + rfv, attempts
        return False, "none", attempts
    for prof, extra in (("dev", []), ("release", ["--release"])):
        if prof not in profiles:
            continue
        cmd = ["cargo", "run", "--offline", "--quiet", "--bin", "replay", "--target-dir", tdir] + extra + feat + ["--", name, bpath]
        rc, out, _ = sh(cmd, cwd=d, timeout=900)
        attempts.append({"profile": prof, "rc": rc, "tail": out[-600:]})
        if rc == 3 and "assumption violated" in out:
            continue
        if rc != 0 and rc != 4 and "could not compile" not in out:
            return True, prof, attempts
    if "miri" not in profiles:
        return False, "none", attempts
    # memory-safety failures do not crash a native run: ask Miri
    env = dict(ENV)
    env["MIRIFLAGS"] = "-Zmiri-disable-isolation"
    cmd = ["cargo", "+nightly", "miri", "run", "--offline", "--quiet", "--bin", "replay",
           "--target-dir", os.path.join(WORK, "target-%s-miri" % crate)] + feat + ["--", name, bpath]
    rc, out, _ = sh(cmd, cwd=d, timeout=1800, env=env)
    attempts.append({"profile": "miri", "rc": rc, "tail": out[-1200:]})
    if rc != 0 and ("Undefined Behavior" in out or "memory leaked" in out or "panicked" in out):
        return True, "miri", attempts
    return False, "none", attempts


# --------------------------------------------------------------------------------------------
# Known findings
# --------------------------------------------------------------------------------------------

def load_known():
    p = os.path.join(VERIF, "known_findings.json")
    if not os.path.exists(p):
        return []
    return json.load(open(p)).get("findings", [])


def known_for(prop, key):
    for f in load_known():
        if f["property"] == prop and f["key"] == key and f["status"] == "open":
            return f
    return None


# --------------------------------------------------------------------------------------------
# Evidence
# --------------------------------------------------------------------------------------------

def write_evidence(prop, tier, level, coverage, assumptions, wall, violations):
    os.makedirs(os.path.join(VERIF, "evidence"), exist_ok=True)
    ev = {
        "property_id": prop,
        "tier": tier,
        "seed": int(os.environ.get("VERIF_SEED", "0") or 0),
        "level": level,
        "coverage": coverage,
        "assumptions": assumptions,
        "wall_s": round(wall, 2),
        "violations": violations,
    }
    p = os.path.join(VERIF, "evidence", prop + ".json")
    with open(p, "w") as f:
        json.dump(ev, f, indent=1)
    return p


def repo_state():
    rc, out, _ = sh(["git", "-C", REPO, "rev-parse", "HEAD"])
    head = out.strip().splitlines()[-1] if rc == 0 and out.strip() else "?"
    rc, out, _ = sh(["git", "-C", REPO, "status", "--porcelain"])
    dirty = [l for l in out.splitlines() if l.strip() and not l.startswith("WARNING")]
    return {"head": head, "dirty_files": len(dirty)}


# --------------------------------------------------------------------------------------------
# Generic Kani-based property check
# --------------------------------------------------------------------------------------------

def check_kani_property(prop, spec, tier):
    """spec: see props.py. Returns exit code."""
    t0 = time.time()
    crate = spec["crate"]
    features = spec.get("features")
    if spec.get("pre"):
        spec["pre"](tier)
    srcinfo = {}
    for c in set([crate] + [g["crate"] for g in spec["groups"] if g.get("crate")]):
        srcinfo.update(harness_sources(c))
    all_results = []  # (harness, result, group): a harness may run in several groups (other flags) - every run is judged
    metas = []
    inconclusive = []
    for g in spec["groups"]:
        hs = list(g.get(tier) or g.get("quick") or [])
        if tier == "thorough" and g.get("thorough_adds"):
            hs = list(g.get("quick", [])) + list(g["thorough_adds"])
        if os.environ.get("VERIF_ONLY"):
            hs = [h for h in hs if os.environ["VERIF_ONLY"] in h]
        if not hs:
            continue
        res, meta = run_kani(g.get("crate", crate), hs, cbmc_args=g.get("cbmc_args", ()), kani_args=g.get("kani_args", ()),
                             jobs=g.get("jobs"), harness_timeout=g.get("timeout", 600),
                             mem_gb=g.get("mem_gb", 14), tag="%s-%s" % (prop, g["id"]), features=features,
                             rustflags=g.get("rustflags"))
        meta["group"] = g["id"]
        meta["cbmc_args"] = list(g.get("cbmc_args", ()))
        metas.append(meta)
        if meta.get("build_error"):
            log("[%s] harness crate does not build against the current /repo tree:" % prop)
            log(meta["build_error"])
        for h in hs:
            r = res.get(h)
            if r is None:
                inconclusive.append((h, "no result (%s)" % (meta.get("error") or meta.get("build_error") or "missing")))
            all_results.append((h, r, g))

    negatives = set(spec.get("negative", []))
    known = spec.get("known", {})  # harness -> {key, match:[substr]}
    violations = []
    extra_failing = []
    unreplayed = []
    known_hits = []
    nontrivial = 0
    n_checks = 0
    solver_s = 0.0
    reached = set()
    hrecords = []
    for h, r, g in all_results:
        if r is None:
            continue
        cls = classify(r)
        n_checks += r["n_checks"]
        solver_s += r["solver_s"] or 0.0
        reached.update(r["reached"])
        info = srcinfo.get(h, {})
        rec = {"harness": h, "unwind": info.get("unwind"), "what": info.get("doc", "")[:300], "verdict": cls,
               "checks": r["n_checks"], "failed": r["n_failed"], "solver_s": r["solver_s"],
               "covers": r["covers"], "group": g["id"]}
        hrecords.append(rec)
        uncovered = [c for c in r["covers"] if c["status"] != "Satisfied"]
        if h in spec.get("expect_panic", {}):
            ep = spec["expect_panic"][h]
            rec["role"] = "must panic at '%s' with nothing that writes reachable before it" % ep["fail_desc"]
            real = [f for f in r["failed"] if f["cat"] not in INCONCLUSIVE_CATS]
            # the panic must come from the range check of the operation itself: an assertion-category check located
            # in that function of /repo (matched by function name, not by message text, so that rewording the
            # assertion does not raise a false alarm)
            only_expected = bool(real) and all(
                (ep["fail_desc"] in f["desc"]) or (f["cat"] == "assertion" and ep.get("fail_fn") and ep["fail_fn"] in (f.get("fn") or "")
                                                 and (f.get("loc") or "").startswith(REPO + "/"))
                for f in real)
            early = [a for a in r["repo_asserts"] if a["status"] != "Unreachable" and any(p in a["fn"] for p in ep["unreachable_fn"])]
            if cls == "fail" and only_expected and not early:
                rec["verdict"] = "pass (panics at the range check only)"
                nontrivial += 1
                continue
            if cls == "inconclusive":
                inconclusive.append((h, "inconclusive: %s" % r["failed"][:3]))
                continue
            # otherwise fall through to replay with a synthetic failure description
            if cls == "pass" or not real:
                r["failed"] = [{"desc": "expected panic '%s' did not occur" % ep["fail_desc"], "cat": "assertion", "fn": h, "loc": ""}]
            elif early:
                r["failed"] = r["failed"] + [{"desc": "code that modifies the vector is reachable before the range check: %s" % early[0]["fn"],
                                               "cat": "assertion", "fn": early[0]["fn"], "loc": ""}]
            cls = "fail"
        if h in negatives:
            rec["role"] = "negative twin (must fail)"
            if cls == "pass":
                inconclusive.append((h, "negative twin passed: the model does not discriminate"))
            elif cls == "fail" and not any("negative twin" in f["desc"] for f in r["failed"]):
                inconclusive.append((h, "negative twin failed for another reason: %s" % r["failed"][:2]))
            elif cls == "inconclusive":
                inconclusive.append((h, "negative twin inconclusive"))
            continue
        if cls == "pass":
            if h in known:
                k = known_for(prop, known[h]["key"])
                rec["role"] = "known-finding scenario"
                if k:
                    log("[%s] note: known finding %s no longer reproduces in %s" % (prop, k["key"], h))
                if r["reached"] and not uncovered:
                    nontrivial += 1
            elif uncovered:
                inconclusive.append((h, "cover not satisfied (vacuity guard): %s" % [c["desc"] for c in uncovered]))
            else:
                if r["reached"] or spec.get("nontrivial_without_repo_checks"):
                    nontrivial += 1
            continue
        # An indirect call that CBMC cannot resolve to any function of a matching signature ("missing_definition") proves
        # nothing by itself - but when it sits in library / generated code it is what a caller-callee signature mismatch
        # looks like to the solver. It is taken as a counterexample CANDIDATE: only a native run of the same harness body
        # that fails against the real code turns it into a violation, otherwise it stays inconclusive.
        md_only = (cls == "inconclusive" and r["status"] == "Failure" and bool(r["failed"])
                   and all(f["cat"] == "missing_definition" for f in r["failed"]))
        if cls == "inconclusive" and not md_only:
            inconclusive.append((h, "inconclusive: status=%s failed=%s err=%s" % (r["status"], r["failed"][:3], r["error"])))
            continue
        # cls == fail
        if h in known:
            k = known_for(prop, known[h]["key"])
            pats = known[h]["match"]
            if k and all(any(p in f["desc"] for p in pats) for f in r["failed"] if f["cat"] not in INCONCLUSIVE_CATS):
                rec["role"] = "known-finding scenario"
                known_hits.append((k, h))
                nontrivial += 1
                continue
        # genuine counterexample candidate: replay (a replayed violation is conclusive; further failing
        # harnesses are listed but not replayed one by one - each replay costs minutes)
        if len(violations) >= 2:
            rec["replay"] = "not replayed (two violations already confirmed in this run)"
            extra_failing.append((h, [f["desc"] for f in r["failed"][:3]]))
            continue
        log("[%s] counterexample in %s: %s" % (prop, h, "; ".join(f["desc"] for f in r["failed"][:4])))
        gcrate = g.get("crate", crate)
        tests = []
        for _attempt in range(3):
            # Kani does not always emit a playback test for the failed assertion (observed: only the
            # cover witnesses were printed in one of two identical runs), so ask again if needed; a run that died
            # (trace generation needs more memory and time than the verdict did) is repeated ONCE with 40 GB / 50 min
            big = _attempt > 0 and getattr(concrete_playback, "last_crashed", False)
            tests = concrete_playback(gcrate, h, cbmc_args=g.get("cbmc_args", ()), features=features,
                                      timeout=3000 if big else 900, mem_gb=40 if big else 14, kani_args=g.get("kani_args", ()),
                                      rustflags=g.get("rustflags"))
            if [t for t in tests if not t["is_cover"]]:
                break
            if big:
                break
        reproduced = False
        how = "none"
        chosen = None
        attempts_all = []
        # pass 1: plain dev-profile run of every candidate; pass 2: release + Miri for the counterexamples proper
        for t in tests[:8]:
            ok, how, attempts = native_replay(gcrate, h, t["bytes"], features=features, profiles=("dev",), rustflags=g.get("rustflags"))
            attempts_all.append({"check": t["check"], "attempts": attempts})
            if ok:
                reproduced, chosen = True, t
                break
        if not reproduced:
            for t in [t for t in tests if not t["is_cover"]][:2] or tests[:1]:
                ok, how, attempts = native_replay(gcrate, h, t["bytes"], features=features, profiles=("release", "miri"), rustflags=g.get("rustflags"))
                attempts_all.append({"check": t["check"], "attempts": attempts})
                if ok:
                    reproduced, chosen = True, t
                    break
        if not reproduced and (md_only or not [t for t in tests if not t["is_cover"]]):
            # The solver found the assertion violable but the tool chain produced no concrete values for it (observed:
            # CBMC aborts in bits2expr while building the trace of a counterexample that contains an array of
            # zero-sized elements). The verdict stands; to show it against the real code, run the same harness body
            # natively on a fixed family of small input streams and accept a run only if it fails IN THE SAME CHECK
            # (same assertion text or source line) the solver reported.
            wanted = [f for f in r["failed"] if f["cat"] not in INCONCLUSIVE_CATS] or r["failed"]
            for cand in synthetic_inputs():
                ok, how2, attempts = native_replay(gcrate, h, cand, features=features, profiles=("dev",), rustflags=g.get("rustflags"))
                if not ok:
                    continue
                tail = attempts[-1]["tail"]
                # (harnesses whose native form observes the state after a caught panic fail natively in their own,
                # differently worded assertion - any native failure of such a body is accepted)
                if md_only or h in spec.get("expect_panic", {}) or any((f["desc"] and f["desc"] in tail) or (f["loc"] and f["loc"] != "unknown:unknown" and f["loc"] + ":" in tail)
                                  for f in wanted):
                    t = {"check": "synthetic input stream (no solver trace available): " + wanted[0]["desc"], "bytes": cand,
                         "is_cover": False}
                    tests = [t] + tests
                    attempts_all.append({"check": t["check"], "attempts": attempts})
                    reproduced, chosen, how = True, t, how2
                    break
        rdir = os.path.join(WORK, "replay")
        os.makedirs(rdir, exist_ok=True)
        hh = hashlib.sha1((h + json.dumps(r["failed"], sort_keys=True)).encode()).hexdigest()[:10]
        rpath = os.path.join(rdir, "%s-%s-%s.json" % (prop, h.split("::")[-1], hh))
        with open(rpath, "w") as f:
            json.dump({"property": prop, "crate": gcrate, "features": features, "harness": h, "rustflags": g.get("rustflags"),
                       "failed_checks": r["failed"], "bytes": (chosen or (tests[0] if tests else {"bytes": []}))["bytes"],
                       "all_tests": tests, "reproduced": reproduced, "reproduced_in": how, "attempts": attempts_all,
                       "repo": repo_state()}, f, indent=1)
        rec["replay"] = rpath
        if reproduced:
            violations.append((h, rpath, r["failed"]))
        elif md_only:
            inconclusive.append((h, "inconclusive: unresolvable indirect call, no native failure found: %s" % r["failed"][:2]))
        else:
            unreplayed.append((h, rpath, r["failed"]))

    extra_cov = {}
    if spec.get("extra"):
        try:
            ex = spec["extra"](prop, tier)
        except Exception as e:  # never let an auxiliary query turn into a pass
            ex = {"coverage": {}, "violations": [], "inconclusive": ["auxiliary query failed: %s" % e]}
        extra_cov = ex.get("coverage", {})
        for desc, payload in ex.get("violations", []):
            rdir = os.path.join(WORK, "replay")
            os.makedirs(rdir, exist_ok=True)
            rpath = os.path.join(rdir, "%s-extra-%s.json" % (prop, hashlib.sha1(desc.encode()).hexdigest()[:10]))
            with open(rpath, "w") as f:
                json.dump({"engine": "smt", "property": prop, "what": desc, "query": payload}, f, indent=1)
            violations.append(("auxiliary SMT query", rpath, [{"desc": desc, "cat": "smt", "fn": "", "loc": ""}]))
        for w in ex.get("inconclusive", []):
            inconclusive.append(("auxiliary SMT query", w))
    wall = time.time() - t0
    samples = [{"harness": x["harness"], "bound": {"unwind": x["unwind"]}, "what": x["what"], "verdict": x["verdict"],
                "cbmc_properties": x["checks"], "covers": x["covers"]} for x in hrecords[:12]]
    for v in violations + unreplayed:
        samples.append({"counterexample_in": v[0], "replay": v[1], "failed_checks": v[2][:5]})
    coverage = {
        "evaluations": max(1, n_checks),
        "distinct_nontrivial": nontrivial,
        "rule": "evaluations = CBMC properties (assertions, pointer/overflow/memory checks) decided by the SAT solver "
                "over all values of the symbolic inputs within each harness's bound, summed over the harness queries of "
                "this run; distinct_nontrivial = number of distinct harness queries that (a) reached code located under "
                "/repo (measured from the locations of CBMC's checks), (b) had every kani::cover! vacuity witness "
                "SATISFIED and (c) were decided (no timeout / OOM / unwinding failure). Negative twins are not counted.",
        "samples": samples,
        "explanation": spec.get("explanation", ""),
        "exhaustive": False,
        "engine": "Kani 0.68.0 -> CBMC 6.11.0 -> CaDiCaL (bounded model checking of the compiled code; unwinding "
                  "assertions on)",
        "bounds": spec.get("bounds", ""),
        "outside": spec.get("outside", ""),
        "harness_queries": len(hrecords),
        "harnesses": hrecords,
        "queries_discharged": len([x for x in hrecords if str(x["verdict"]).startswith("pass")]),
        "solver_time_s": round(solver_s, 3),
        "cglue_functions_reached": sorted(reached)[:150],
        "cglue_functions_reached_n": len(reached),
        "invocations": metas,
        "known_findings_hit": [{"key": k["key"], "harness": h} for k, h in known_hits],
        "further_failing_harnesses_not_replayed": [{"harness": h, "failed": d} for h, d in extra_failing],
        "inconclusive": [{"harness": h, "why": w} for h, w in inconclusive],
        "repo": repo_state(),
    }
    coverage.update(extra_cov)
    ev = write_evidence(prop, tier, spec.get("level", "model_checking"), coverage, spec.get("assumptions", []),
                        wall, len(violations))
    for k, h in known_hits:
        log("KNOWN-FINDING: property=%s %s [%s]" % (prop, k["what"], k["key"]))
    log("[%s] tier=%s harness queries=%d discharged=%d cbmc properties=%d solver=%.1fs wall=%.1fs evidence=%s" % (
        prop, tier, len(hrecords), coverage["queries_discharged"], n_checks, solver_s, wall, ev))
    if violations:
        for h, rpath, failed in violations:
            log("VIOLATION property=%s replay=%s" % (prop, rpath))
            log("  harness %s: %s" % (h, "; ".join(f["desc"] for f in failed[:4])))
        for h, d in extra_failing:
            log("  also failing (not replayed): %s: %s" % (h, "; ".join(d)))
        return 1
    if unreplayed:
        for h, rpath, failed in unreplayed:
            log("[%s] UNREPLAYED counterexample (not reported as violation) in %s: %s -> %s" % (
                prop, h, "; ".join(f["desc"] for f in failed[:4]), rpath))
        return 2
    if inconclusive:
        for h, w in inconclusive:
            log("[%s] INCONCLUSIVE %s: %s" % (prop, h, w))
        return 3
    return 0


def replay_file(path):
    d = json.load(open(path))
    if d.get("engine") and d["engine"] != "kani":
        import props
        return props.replay_other(d)
    ok, how, attempts = native_replay(d["crate"], d["harness"], d["bytes"], features=d.get("features"), rustflags=d.get("rustflags"))
    log(json.dumps(attempts, indent=1))
    if ok:
        log("replay: reproduced in %s" % how)
        log("VIOLATION property=%s replay=%s" % (d["property"], path))
        return 1
    log("replay: did not reproduce")
    return 0


def main():
    args = sys.argv[1:]
    if not args:
        print(__doc__)
        return 64
    prop = args[0]
    tier = os.environ.get("VERIF_TIER", "quick")
    replay = None
    i = 1
    while i < len(args):
        if args[i] == "--tier":
            tier = args[i + 1]
            i += 2
        elif args[i] == "--replay":
            replay = args[i + 1]
            i += 2
        elif args[i] == "--only":
            # debugging aid: restrict a Kani-based check to the harnesses whose name contains the given text (the evidence
            # file then describes this partial run; the registered commands never use it)
            os.environ["VERIF_ONLY"] = args[i + 1]
            i += 2
        else:
            i += 1
    if tier not in ("quick", "thorough"):
        tier = "quick"
    if replay:
        return replay_file(replay)
    import props
    if prop not in props.PROPS:
        log("unknown or unclaimed property %s" % prop)
        return 64
    spec = props.PROPS[prop]
    if spec.get("engine", "kani") == "kani":
        return check_kani_property(prop, spec, tier)
    return spec["run"](prop, spec, tier)


if __name__ == "__main__":
    sys.exit(main())
