#!/usr/bin/env python3
"""Regenerates /verif/MANIFEST.json from lib/props.py (claimed checks) and the tables below."""
import json
import os
import sys

HERE = os.path.dirname(os.path.abspath(__file__))
sys.path.insert(0, HERE)
import props  # noqa

NOT_APPLICABLE = {
    "C03": "FFI-safety is the verdict of rustc's improper_ctypes lints over types of re-compiled expanded source: there is "
           "no execution, input or state for a symbolic executor or SMT solver to decide; encoding the lint's rules would "
           "verify a transcription of the lint, not the code (DESIGN.md C03).",
    "C18": "compiler acceptance of the emitted header, byte-identical output across processes (HashSet iteration order "
           "under per-process random keys inside a regex rewriter) and textual preservation of foreign declarations are "
           "not semantic assertions over inputs that Kani/CBMC or an SMT encoding of this code can pose within reach "
           "(DESIGN.md C18).",
}

TEXT = props.MANIFEST_TEXT


def main():
    checks = []
    for pid in sorted(props.PROPS):
        spec = props.PROPS[pid]
        t = TEXT[pid]
        checks.append({
            "property_id": pid,
            "quick_cmd": "./check %s --tier quick" % pid,
            "thorough_cmd": "./check %s --tier thorough" % pid,
            "evidence_file": "/verif/evidence/%s.json" % pid,
            "replay_cmd_template": "./check %s --replay {path}" % pid,
            "engine": t.get("engine", "kani-cbmc"),
            "level_claimed": {"category": spec.get("level", "model_checking"), "text": t["level"],
                              "design_ref": "DESIGN.md section 5, %s" % pid},
            "level_note": t["note"],
            "technique": t["technique"],
        })
    na = [{"property_id": k, "reason": v} for k, v in sorted(NOT_APPLICABLE.items())]
    for pid, why in sorted(getattr(props, "NOT_YET", {}).items()):
        if pid not in props.PROPS:
            na.append({"property_id": pid, "reason": why})
    man = {
        "version": 1,
        "setup_cmd": "./setup.sh",
        "hooks": {
            "guard": "cfg(kani)",
            "enable": "set automatically by the Kani compiler: every check builds /repo/cglue through `cargo kani` from the "
                      "harness crates' path dependency; ordinary cargo build/test never sets it",
            "baseline_off_cmd": "cd /repo && cargo test --workspace --no-fail-fast --offline",
            "source_commits": ["a9fe5e559b30713cbcd5fec03948db018df55fcf", "06f240426e81edd27258a1303fb5a965d40f0441"],
            "add_only": True,
        },
        "engines": [
            {"name": "kani-cbmc", "path": "/verif/harness", "serves_properties":
                sorted(p for p in props.PROPS if TEXT[p].get("engine", "kani-cbmc") == "kani-cbmc"),
             "kind_free_text": "Kani 0.68 proof harnesses over symbolic inputs, compiled from /repo's working tree and the "
                               "proc-macros' actual expansion, decided by CBMC 6.11 + CaDiCaL with unwinding assertions on"},
            {"name": "cbmc-c", "path": "/verif/c17", "serves_properties":
                sorted(p for p in props.PROPS if TEXT[p].get("engine") == "cbmc-c"),
             "kind_free_text": "CBMC directly on C harnesses that #include the header emitted by the real cglue-bindgen binary"},
            {"name": "smt", "path": "/verif/smt", "serves_properties":
                sorted(p for p in props.PROPS if TEXT[p].get("engine") == "smt"),
             "kind_free_text": "Z3 + cvc5 on SMT-LIB2 generated from rustdoc JSON of the real crates (impl clauses)"},
        ],
        "checks": checks,
        "not_applicable": na,
        "notes": "Solver-based checking of the real code; see DESIGN.md. Known findings: /verif/known_findings.json. "
                 "Exit codes of ./check: 0 held, 1 VIOLATION (replayed), 2 counterexample that did not replay, 3 inconclusive.",
    }
    man["engines"] = [e for e in man["engines"] if e["serves_properties"]]
    with open(os.path.join(os.path.dirname(HERE), "MANIFEST.json"), "w") as f:
        json.dump(man, f, indent=1)
    print("MANIFEST.json: %d checks, %d not applicable" % (len(checks), len(na)))


if __name__ == "__main__":
    main()
