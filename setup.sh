#!/bin/bash
# Offline setup after a fresh restore: nothing is fetched. Creates the scratch area and seeds the
# harness crates' lock files from /repo so that cargo resolves exactly as /repo does.
set -e
cd "$(dirname "$(readlink -f "$0")")"
mkdir -p work/logs work/replay evidence
for c in harness/*/; do
  if [ -f "$c/Cargo.toml" ] && grep -q '/repo/' "$c/Cargo.toml" && [ ! -f "$c/Cargo.lock" ]; then
    cp /repo/Cargo.lock "$c/Cargo.lock"
  fi
done
cargo kani --version
cbmc --version
echo setup ok
