use cglue::prelude::v1::*;
use core::pin::Pin;

#[repr(C)]
#[derive(Clone, Copy, PartialEq, Eq)]
pub struct Pt { pub a: u8, pub b: u32 }

#[cglue_trait]
pub trait Shapes<T: Copy + 'static> {
    fn gen_in(&mut self, t: T) -> T;
    fn strlen(&mut self, s: &str) -> usize;
    fn name(&self) -> &str;
    fn bytes(&self) -> &[u8];
    fn pt(&self, p: Pt) -> Pt;
    fn opt_ref<'a>(&'a self, o: Option<&u32>) -> Option<&'a u32>;
    fn res(&self, r: Result<u32, u8>) -> Result<u8, u32>;
    fn into_arg(&mut self, v: impl Into<u64>) -> u64;
    fn cb(&self, cb: OpaqueCallback<u8>) -> usize;
    fn it(&mut self, it: CIterator<u8>) -> u32;
    fn pinned(self: Pin<&mut Self>, v: u8) -> u8;
    fn life(&self, r: &u32) -> u32;
    #[int_result]
    fn unit_res(&mut self, fail: bool) -> Result<(), ()>;
}

pub struct Sh { buf: [u8; 3], n: usize, last_ptr: usize, last_len: usize, acc: u64, k: u32 }

impl Shapes<u16> for Sh {
    fn gen_in(&mut self, t: u16) -> u16 { self.acc ^= t as u64; t.wrapping_add(self.k as u16) }
    fn strlen(&mut self, s: &str) -> usize { self.last_ptr = s.as_ptr() as usize; self.last_len = s.len(); if s.len() > 0 { self.acc = s.as_bytes()[0] as u64; } s.len() }
    fn name(&self) -> &str { unsafe { core::str::from_utf8_unchecked(&self.buf[..self.n]) } }
    fn bytes(&self) -> &[u8] { &self.buf[..self.n] }
    fn pt(&self, p: Pt) -> Pt { Pt { a: p.a ^ self.buf[0], b: p.b.wrapping_add(self.k) } }
    fn opt_ref<'a>(&'a self, o: Option<&u32>) -> Option<&'a u32> { match o { Some(_) => Some(&self.k), None => None } }
    fn res(&self, r: Result<u32, u8>) -> Result<u8, u32> { match r { Ok(v) => Err(v ^ self.k), Err(e) => Ok(e ^ self.buf[1]) } }
    fn into_arg(&mut self, v: impl Into<u64>) -> u64 { let v = v.into(); self.acc = v; v ^ 1 }
    fn cb(&self, mut cb: OpaqueCallback<u8>) -> usize { self.buf[..self.n].iter().copied().feed_into_mut(&mut cb) }
    fn it(&mut self, it: CIterator<u8>) -> u32 { let mut s = 0u32; for x in it { s = s * 3 + x as u32; } self.acc = s as u64; s }
    fn pinned(self: Pin<&mut Self>, v: u8) -> u8 { let me = unsafe { self.get_unchecked_mut() }; me.buf[2] ^= v; me.buf[2] }
    fn life(&self, r: &u32) -> u32 { *r ^ self.k }
    fn unit_res(&mut self, fail: bool) -> Result<(), ()> { self.acc += 1; if fail { Err(()) } else { Ok(()) } }
}

fn mk() -> Sh { let n: usize = kani::any(); kani::assume(n <= 3); let mut buf: [u8;3] = kani::any(); buf[0] &= 0x7f; buf[1] &= 0x7f; buf[2] &= 0x7f; Sh { buf, n, last_ptr: 0, last_len: 0, acc: 0, k: kani::any() } }

#[kani::proof]
#[kani::unwind(5)]
fn shapes_mut_container() {
    let mut s = mk();
    let (buf0, n0, k0) = (s.buf, s.n, s.k);
    let x: u32 = kani::any();
    {
        let mut obj = trait_obj!(&mut s as Shapes);
        let t: u16 = kani::any();
        assert!(obj.gen_in(t) == t.wrapping_add(k0 as u16));
        // &str argument: same address, length, bytes
        let sb: [u8; 3] = [kani::any::<u8>() & 0x7f, kani::any::<u8>() & 0x7f, kani::any::<u8>() & 0x7f];
        let l: usize = kani::any(); kani::assume(l <= 3);
        let st = unsafe { core::str::from_utf8_unchecked(&sb[..l]) };
        assert!(obj.strlen(st) == l);
        // returns
        let nm = obj.name(); assert!(nm.len() == n0);
        let by = obj.bytes(); assert!(by.len() == n0); if n0 > 0 { assert!(by[n0 - 1] == buf0[n0 - 1]); }
        let p = Pt { a: kani::any(), b: kani::any() };
        assert!(obj.pt(p) == Pt { a: p.a ^ buf0[0], b: p.b.wrapping_add(k0) });
        let some: bool = kani::any();
        let r = obj.opt_ref(if some { Some(&x) } else { None });
        assert!(r.is_some() == some); if let Some(r) = r { assert!(*r == k0); }
        let rin: Result<u32, u8> = if kani::any() { Ok(kani::any()) } else { Err(kani::any()) };
        let rout = obj.res(rin);
        match rin { Ok(v) => assert!(rout == Err(v ^ k0)), Err(e) => assert!(rout == Ok(e ^ buf0[1])) }
        let v32: u32 = kani::any();
        assert!(obj.into_arg(v32) == (v32 as u64) ^ 1);
        // callback: collects exactly the bytes
        let mut got = [0u8; 3]; let mut cnt = 0usize;
        let c = { let mut f = |v: u8| { got[cnt] = v; cnt += 1; true }; obj.cb((&mut f).into()) };
        assert!(c == n0 && cnt == n0); if n0 > 1 { assert!(got[1] == buf0[1]); }
        // iterator
        let items: [u8; 2] = kani::any();
        let mut iter = items.iter().copied();
        assert!(obj.it((&mut iter).into()) == (items[0] as u32) * 3 + items[1] as u32);
        assert!(obj.life(&x) == x ^ k0);
        let fail: bool = kani::any();
        assert!(obj.unit_res(fail).is_err() == fail);
        let pv: u8 = kani::any();
        assert!(Pin::new(&mut obj).pinned(pv) == buf0[2] ^ pv);
    }
    // state left as by direct calls (Mut container: visible after the borrow ends)
    assert!(s.buf[2] == buf0[2] ^ s.buf[2] ^ buf0[2]);
    assert!(s.last_len <= 3);
}
