use cglue::vec::CVec;

fn mk(n0: usize, cap: usize) -> (CVec<u8>, [u8; 8], usize) {
    let mut v: Vec<u8> = Vec::with_capacity(cap);
    let mut m = [0u8; 8];
    let mut i = 0;
    while i < n0 { let x: u8 = kani::any(); v.push(x); m[i] = x; i += 1; }
    (CVec::from(v), m, n0)
}

fn check(cv: &CVec<u8>, m: &[u8; 8], len: usize) {
    assert!(cv.len() == len);
    assert!(cv.capacity() >= cv.len());
    let mut j = 0;
    while j < len { assert!(cv[j] == m[j]); j += 1; }
}

fn step(cv: &mut CVec<u8>, m: &mut [u8; 8], len: &mut usize) {
    let op: u8 = kani::any();
    match op {
        0 => { let v: u8 = kani::any(); cv.push(v); m[*len] = v; *len += 1; }
        1 => { let r = cv.pop(); if *len == 0 { assert!(r.is_none()); } else { *len -= 1; assert!(r == Some(m[*len])); } }
        2 => {
            let idx: usize = kani::any(); kani::assume(idx <= *len); let v: u8 = kani::any();
            cv.insert(idx, v);
            let mut j = *len; while j > idx { m[j] = m[j-1]; j -= 1; } m[idx] = v; *len += 1;
        }
        3 => {
            let idx: usize = kani::any(); kani::assume(idx < *len);
            let r = cv.remove(idx); assert!(r == m[idx]);
            let mut j = idx; while j + 1 < *len { m[j] = m[j+1]; j += 1; } *len -= 1;
        }
        _ => { let a: usize = kani::any(); kani::assume(a <= 3); cv.reserve(a); assert!(cv.capacity() - cv.len() >= a); }
    }
}

#[kani::proof]
#[kani::unwind(5)]
fn cvec_2_exact_1step() {
    let (mut cv, mut m, mut len) = mk(2, 2);
    step(&mut cv, &mut m, &mut len);
    check(&cv, &m, len);
}

#[kani::proof]
#[kani::unwind(6)]
fn cvec_2_spare_2step() {
    let (mut cv, mut m, mut len) = mk(2, 4);
    step(&mut cv, &mut m, &mut len);
    step(&mut cv, &mut m, &mut len);
    check(&cv, &m, len);
}
