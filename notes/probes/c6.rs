use super::*;
use cglue::prelude::v1::*;

static mut LIVE: i32 = 0;
static mut DROPS: u32 = 0;

pub struct Pay { v: Box<u64>, tag: u8 }
impl Pay { fn new(v: u64) -> Self { unsafe { LIVE += 1; } Pay { v: Box::new(v), tag: 1 } } }
impl Drop for Pay { fn drop(&mut self) { unsafe { assert!(self.tag == 1); self.tag = 0; LIVE -= 1; DROPS += 1; } } }

impl Counter for Pay {
    fn get(&self) -> u64 { *self.v }
    fn add(&mut self, v: u64) -> u64 { *self.v = self.v.wrapping_add(v); *self.v }
    fn fill(&mut self, _out: &mut [u8], _src: &[u8]) -> usize { 0 }
    fn checked(&mut self, v: u64) -> Result<u64, ()> { self.v.checked_add(v).ok_or(()) }
    fn opt(&self, v: Option<u32>) -> Option<u64> { v.map(|x| x as u64) }
    fn finish(self) -> u64 { *self.v }
}
impl Other for Pay { fn other(&self) -> u32 { 3 } }
cglue_impl_group!(Pay, Grp, { Other });
pub struct Pay2(Pay);
impl Counter for Pay2 {
    fn get(&self) -> u64 { self.0.get() }
    fn add(&mut self, v: u64) -> u64 { self.0.add(v) }
    fn fill(&mut self, _out: &mut [u8], _src: &[u8]) -> usize { 0 }
    fn checked(&mut self, v: u64) -> Result<u64, ()> { self.0.checked(v) }
    fn opt(&self, v: Option<u32>) -> Option<u64> { self.0.opt(v) }
    fn finish(self) -> u64 { 0 }
}
cglue_impl_group!(Pay2, Grp, {});

#[kani::proof]
#[kani::unwind(4)]
fn box_lifecycle() {
    let x: u64 = kani::any();
    let path: u8 = kani::any();
    {
        let mut obj = trait_obj!(Pay::new(x) as Counter);
        unsafe { assert!(LIVE == 1); }
        let y: u64 = kani::any();
        assert!(obj.add(y) == x.wrapping_add(y));
        match path {
            0 => { drop(obj); }
            1 => { assert!(obj.finish() == x.wrapping_add(y)); }
            _ => { let o2 = obj; assert!(o2.get() == x.wrapping_add(y)); }
        }
    }
    unsafe { assert!(LIVE == 0); assert!(DROPS == 1); }
}

#[kani::proof]
#[kani::unwind(4)]
fn group_cast_lifecycle() {
    let x: u64 = kani::any();
    let has_other: bool = kani::any();
    let path: u8 = kani::any();
    {
        let grp: GrpBox = if has_other { group_obj!(Pay::new(x) as Grp) } else { group_obj!(Pay2(Pay::new(x))  as Grp) };
        unsafe { assert!(LIVE == 1); }
        assert!(grp.check_impl_other() == has_other);
        match path {
            0 => {
                let c = cast!(grp impl Other);
                assert!(c.is_some() == has_other);
                if let Some(c) = c { assert!(c.other() == 3); assert!(c.get() == x); let back = GrpBox::from(c); assert!(back.get() == x); assert!(back.check_impl_other()); }
            }
            1 => {
                let c = into!(grp impl Other);
                assert!(c.is_some() == has_other);
                if let Some(c) = c { assert!(c.other() == 3); assert!(c.get() == x); }
            }
            _ => {
                assert!(as_ref!(grp impl Other).is_some() == has_other);
                assert!(grp.get() == x);
            }
        }
    }
    unsafe { assert!(LIVE == 0); assert!(DROPS == 1); }
}
