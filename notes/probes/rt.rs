use cglue::prelude::v1::*;
use cglue::vec::CVec;

#[kani::proof]
#[kani::unwind(6)]
fn cvec_vs_vec_u8() {
    // initial vec: len<=2, spare capacity symbolic-ish (0 or 2)
    let n0: usize = kani::any();
    kani::assume(n0 <= 2);
    let spare: bool = kani::any();
    let mut model: Vec<u8> = if spare { Vec::with_capacity(4) } else { Vec::new() };
    let mut i = 0;
    while i < n0 { model.push(kani::any()); i += 1; }
    let mut cv: CVec<u8> = CVec::from(model.clone());
    let mut k = 0;
    while k < 3 {
        let op: u8 = kani::any();
        match op {
            0 => { let v: u8 = kani::any(); model.push(v); cv.push(v); }
            1 => { assert_eq!(model.pop(), cv.pop()); }
            2 => { let idx: usize = kani::any(); kani::assume(idx <= model.len()); let v: u8 = kani::any(); model.insert(idx, v); cv.insert(idx, v); }
            3 => { let idx: usize = kani::any(); kani::assume(idx < model.len()); assert_eq!(model.remove(idx), cv.remove(idx)); }
            _ => { let a: usize = kani::any(); kani::assume(a <= 3); model.reserve(a); cv.reserve(a); assert!(cv.capacity() - cv.len() >= a); }
        }
        assert!(cv.len() == model.len());
        assert!(cv.capacity() >= cv.len());
        let mut j = 0;
        while j < model.len() { assert!(cv[j] == model[j]); j += 1; }
        k += 1;
    }
}

#[kani::proof]
#[kani::unwind(4)]
fn carc_counts() {
    use std::sync::Arc;
    let base = Arc::new(7u32);
    let a: CArc<u32> = CArc::from(base.clone());
    assert!(Arc::strong_count(&base) == 2);
    let mut b = a.clone();
    assert!(Arc::strong_count(&base) == 3);
    let c = b.take();
    assert!(b.as_ref().is_none());
    assert!(Arc::strong_count(&base) == 3);
    let d = c.transpose();
    assert!(d.is_some());
    let e: CArc<u32> = d.unwrap().transpose();
    assert!(**e.as_ref().as_ref().unwrap() == 7);
    drop(b);
    assert!(Arc::strong_count(&base) == 3);
    drop(e);
    assert!(Arc::strong_count(&base) == 2);
    drop(a);
    assert!(Arc::strong_count(&base) == 1);
}

#[kani::proof]
#[kani::unwind(6)]
fn callback_feed() {
    let items: [u8; 4] = kani::any();
    let n: usize = kani::any();
    kani::assume(n <= 4);
    let stop_at: usize = kani::any(); // closure returns false at this index
    let mut seen = [0u8; 4];
    let mut cnt = 0usize;
    let ret = {
        let mut f = |v: u8| { seen[cnt] = v; cnt += 1; cnt - 1 != stop_at };
        let cb: OpaqueCallback<u8> = (&mut f).into();
        items[..n].iter().copied().feed_into(cb)
    };
    let expect = if stop_at < n { stop_at + 1 } else { n };
    assert!(ret == expect);
    assert!(cnt == expect);
    let mut j = 0;
    while j < expect { assert!(seen[j] == items[j]); j += 1; }
}

#[kani::proof]
#[kani::unwind(6)]
fn citer_yields_same() {
    let items: [u8; 4] = kani::any();
    let n: usize = kani::any();
    kani::assume(n <= 4);
    let mut it = items[..n].iter().copied();
    let mut ci = CIterator::from(&mut it);
    let mut j = 0;
    while j < n { assert!(ci.next() == Some(items[j])); j += 1; }
    assert!(ci.next().is_none());
}
