#include "out.h"
typedef struct CGlueObjContainer_CBox_c_void_____CArc_c_void_____FooRetTmp_CArc_c_void Cont;
typedef struct CGlueTraitObj_CBox_c_void_____FooVtbl_CGlueObjContainer_CBox_c_void_____CArc_c_void_____FooRetTmp_CArc_c_void______________CArc_c_void_____FooRetTmp_CArc_c_void Obj;
static int called[3]; static int ctx_live = 1; static int ctx_live_during = -1; static int box_drops = 0;
static uint32_t ret_get, ret_fin; static uint32_t seen_v; static const void *seen_cont; static Cont seen_byval;
static const void *m_clone(const void *p) { ctx_live++; return p; }
static void m_cdrop(const void *p) { ctx_live--; }
static void m_bdrop(void *p) { box_drops++; }
static uint32_t m_get(const Cont *c) { called[0]++; seen_cont = c; return ret_get; }
static void m_set(Cont *c, uint32_t v) { called[1]++; seen_cont = c; seen_v = v; }
static uint32_t m_finish(Cont c) { called[2]++; seen_byval = c; ctx_live_during = ctx_live; /* callee owns & releases */ c.context.drop_fn(c.context.instance); c.instance.drop_fn(c.instance.instance); return ret_fin; }
uint32_t nondet_u32(void); void *nondet_ptr(void);
int main(void) {
    struct FooVtbl_CGlueObjContainer_CBox_c_void_____CArc_c_void_____FooRetTmp_CArc_c_void vt = { m_get, m_set, m_finish };
    Obj o; o.vtbl = &vt;
    o.container.instance.instance = nondet_ptr(); __CPROVER_assume(o.container.instance.instance != 0); o.container.instance.drop_fn = m_bdrop;
    o.container.context.instance = nondet_ptr(); __CPROVER_assume(o.container.context.instance != 0); o.container.context.clone_fn = m_clone; o.container.context.drop_fn = m_cdrop;
    ret_get = nondet_u32(); ret_fin = nondet_u32(); uint32_t v = nondet_u32();
    __CPROVER_assert(get(&o) == ret_get && called[0] == 1 && called[1] == 0 && called[2] == 0 && seen_cont == &o.container, "get forwards");
    set(&o, v);
    __CPROVER_assert(called[1] == 1 && seen_v == v && seen_cont == &o.container, "set forwards arg");
    uint32_t r = finish(o);
    __CPROVER_assert(r == ret_fin && called[2] == 1, "finish forwards");
    __CPROVER_assert(seen_byval.instance.instance == o.container.instance.instance && seen_byval.context.instance == o.container.context.instance, "container by value");
    __CPROVER_assert(ctx_live_during == 2, "ctx clone alive during consuming call");
    __CPROVER_assert(ctx_live == 0 && box_drops == 1, "released exactly once");
    return 0;
}
