import json, itertools, subprocess, sys
d=json.load(open('/scratch/tgt_doc/doc/cglue.json')); idx=d['index']
# ---- type terms: ('app', name, [args]) | ('var', n) | ('ref', mut, t) | ('prim', n)
def T(t):
    if 'resolved_path' in t:
        p=t['resolved_path']; a=p.get('args'); xs=[]
        if a and 'angle_bracketed' in a:
            xs=[T(x['type']) for x in a['angle_bracketed']['args'] if 'type' in x]
        return ('app', p['path'].split('::')[-1], tuple(xs))
    if 'generic' in t: return ('var', t['generic'])
    if 'borrowed_ref' in t: b=t['borrowed_ref']; return ('ref', b['is_mutable'], T(b['type']))
    if 'primitive' in t: return ('prim', t['primitive'])
    if 'tuple' in t: return ('app','tuple',tuple(T(x) for x in t['tuple']))
    if 'qualified_path' in t: q=t['qualified_path']; return ('proj', T(q['self_type']), q['name'])
    return ('other', json.dumps(t)[:40])
def preds(g):
    out=[]
    for p in g['params']:
        k=p['kind']
        if 'type' in k:
            for b in k['type']['bounds']:
                if 'trait_bound' in b: out.append((('var',p['name']), b['trait_bound']['trait']['path'].split('::')[-1]))
    for w in g['where_predicates']:
        if 'bound_predicate' in w:
            bp=w['bound_predicate']
            for b in bp['bounds']:
                if 'trait_bound' in b: out.append((T(bp['type']), b['trait_bound']['trait']['path'].split('::')[-1]))
    return out
auto={}   # (trait, head) -> list of (params pattern, bounds, negative)
opq=[]
for k,it in idx.items():
    im=it['inner'].get('impl')
    if not im or not im.get('trait'): continue
    tr=im['trait']['path'].split('::')[-1]
    f=T(im['for'])
    if tr=='Opaquable':
        tgt=None
        for iid in im['items']:
            sub=idx[str(iid)]
            if 'assoc_type' in sub['inner'] and sub['name']=='OpaqueTarget': tgt=T(sub['inner']['assoc_type']['type'])
        opq.append((f,tgt,preds(im['generics'])))
    elif tr in ('Send','Sync') and f[0]=='app':
        auto.setdefault((tr,f[1]),[]).append((f,preds(im['generics']),im['is_negative']))
# ---- ground evaluation producing z3 terms over (sendP, syncP)
from z3 import *
sendP,syncP=Bools('sendP syncP')
def subst(t,env):
    if t[0]=='var': return env[t[1]]
    if t[0]=='app': return ('app',t[1],tuple(subst(x,env) for x in t[2]))
    if t[0]=='ref': return ('ref',t[1],subst(t[2],env))
    return t
def match(pat,t,env):
    if pat[0]=='var': env[pat[1]]=t; return True
    if pat[0]!=t[0]: return False
    if pat[0]=='app': return pat[1]==t[1] and len(pat[2])==len(t[2]) and all(match(a,b,env) for a,b in zip(pat[2],t[2]))
    if pat[0]=='ref': return pat[1]==t[1] and match(pat[2],t[2],env)
    return pat==t
def holds(tr,t):
    if t==('app','P',()): return sendP if tr=='Send' else syncP
    if t[0]=='prim': return BoolVal(True)
    if t[0]=='ref':
        if tr=='Send': return holds('Sync' if not t[1] else 'Send', t[2])
        return holds('Sync',t[2])
    if t[0]=='app':
        if t[1] in ('PhantomData',): return holds(tr,t[2][0])
        cl=auto.get((tr,t[1]))
        if cl is None: raise Exception('no clause for %s %s'%(tr,t[1]))
        alts=[]
        for (pat,bs,neg) in cl:
            env={}
            if match(pat,t,env):
                if neg: alts.append(BoolVal(False)); continue
                alts.append(And([holds(b[1],subst(b[0],env)) for b in bs if b[1] in('Send','Sync')]+[BoolVal(True)]))
        return Or(alts) if alts else BoolVal(False)
    raise Exception(t)
P=('app','P',())
findings=[]
for (f,tgt,bs) in opq:
    if f[0]=='app' and f[1] in ('CBox','CArc','CArcSome','CSliceBox') or f[0]=='ref':
        env={}
        def bind(p):
            if p[0]=='var': env[p[1]]=P
            elif p[0]=='app': [bind(x) for x in p[2]]
            elif p[0]=='ref': bind(p[2])
        bind(f)
        conc=subst(f,env); opa=subst(tgt,env)
        pre=And([holds(b[1],subst(b[0],env)) for b in bs if b[1] in ('Send','Sync')]+[BoolVal(True)])
        for m in ('Send','Sync'):
            s=Solver(); s.add(pre, holds(m,opa), Not(holds(m,conc)))
            r=s.check()
            print(m, 'rule', f, '->', tgt, ':', r, (s.model() if r==sat else ''))
