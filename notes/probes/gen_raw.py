# Minimal cbindgen-shaped raw header for: trait Foo { get(&self)->u32; set(&mut self, v:u32); finish(self)->u32 }  (CBox + CArc ctx)
CONT_DOC = """/**
 * Simple CGlue trait object container.
 *
 * This is the simplest form of container, represented by an instance, clone context, and
 * temporary return context.
 *
 * `instance` value usually is either a reference, or a mutable reference, or a `CBox`, which
 * contains static reference to the instance, and a dedicated drop function for freeing resources.
 *
 * `context` is either `PhantomData` representing nothing, or typically a `CArc` that can be
 * cloned at will, reference counting some resource, like a `Library` for automatic unloading.
 *
 * `ret_tmp` is usually `PhantomData` representing nothing, unless the trait has functions that
 * return references to associated types, in which case space is reserved for wrapping structures.
 */
"""
RETTMP_DOC = """/**
 * Type definition for temporary return value wrapping storage.
 *
 * The trait does not use return wrapping, thus is a typedef to `PhantomData`.
 *
 * Note that `cbindgen` will generate wrong structures for this type. It is important
 * to go inside the generated headers and fix it - all RetTmp structures without a
 * body should be completely deleted, both as types, and as fields in the
 * groups/objects. If C++11 templates are generated, it is important to define a
 * custom type for CGlueTraitObj that does not have `ret_tmp` defined, and change all
 * type aliases of this trait to use that particular structure.
 */
"""
VTBL_DOC = """/**
 * CGlue vtable for trait {t}.
 *
 * This virtual function table contains ABI-safe interface for the given trait.
 */
"""
OBJ_DOC = """/**
 * Simple CGlue trait object.
 *
 * This is the simplest form of CGlue object, represented by a container and vtable for a single
 * trait.
 *
 * Container merely is a this pointer with some optional temporary return reference context.
 */
"""
t="Foo"; inst="CBox_c_void"; ctx="CArc_c_void"
rt=f"{t}RetTmp_{ctx}"
cont=f"CGlueObjContainer_{inst}_____{ctx}_____{rt}"
vt=f"{t}Vtbl_{cont}"
obj=f"CGlueTraitObj_{inst}_____{vt}______________{ctx}_____{rt}"
print(f"""#include <stdarg.h>
#include <stdbool.h>
#include <stdint.h>
#include <stdlib.h>

/**
 * FFI-safe box
 */
typedef struct CBox_c_void {{
    void *instance;
    void (*drop_fn)(void*);
}} CBox_c_void;

/**
 * FFI-Safe Arc
 */
typedef struct CArc_c_void {{
    const void *instance;
    const void *(*clone_fn)(const void*);
    void (*drop_fn)(const void*);
}} CArc_c_void;

{RETTMP_DOC}typedef struct {rt} {rt};

{CONT_DOC}typedef struct {cont} {{
    struct {inst} instance;
    struct {ctx} context;
    struct {rt} ret_tmp;
}} {cont};

{VTBL_DOC.format(t=t)}typedef struct {vt} {{
    uint32_t (*get)(const struct {cont} *cont);
    void (*set)(struct {cont} *cont, uint32_t v);
    uint32_t (*finish)(struct {cont} cont);
}} {vt};

{OBJ_DOC}typedef struct {obj} {{
    const struct {vt} *vtbl;
    struct {cont} container;
}} {obj};

/**
 * Base CGlue trait object for trait Foo.
 */
typedef struct {obj} FooBase_CBox_c_void_____CArc_c_void;

#ifdef __cplusplus
extern "C" {{
#endif // __cplusplus

void use_foo(FooBase_CBox_c_void_____CArc_c_void *obj);

#ifdef __cplusplus
}} // extern "C"
#endif // __cplusplus""")
