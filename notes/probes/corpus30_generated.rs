use cglue::prelude::v1::*;
#[derive(Clone,Copy,PartialEq,Eq)] pub struct St { pub a: u64, pub calls: u32 }
#[cglue_trait]
pub trait T1 { fn m(&self, v: u64) -> u64; }
impl T1 for St { fn m(&self, v: u64) -> u64 { let x: u64 = v;  let r = x ^ self.a; r } }
#[cfg(kani)] #[kani::proof] #[kani::unwind(5)] fn h1() { let s0 = St { a: kani::any(), calls: 0 }; let mut d = s0; let mut o = s0; let v: u64 = kani::any(); let r1 = T1::m(&mut d, v); let r2 = { let mut obj = trait_obj!(&mut o as T1); obj.m(v) }; assert!(r1 == r2); assert!(d == o); }
#[cglue_trait]
pub trait T2 { fn m(&self, v: u64) -> Option<u64>; }
impl T2 for St { fn m(&self, v: u64) -> Option<u64> { let x: u64 = v;  let r = x ^ self.a; if r & 1 == 0 { Some(r) } else { None } } }
#[cfg(kani)] #[kani::proof] #[kani::unwind(5)] fn h2() { let s0 = St { a: kani::any(), calls: 0 }; let mut d = s0; let mut o = s0; let v: u64 = kani::any(); let r1 = T2::m(&mut d, v); let r2 = { let mut obj = trait_obj!(&mut o as T2); obj.m(v) }; assert!(r1 == r2); assert!(d == o); }
#[cglue_trait]
pub trait T3 { fn m(&self, v: u64) -> Result<u64,u8>; }
impl T3 for St { fn m(&self, v: u64) -> Result<u64,u8> { let x: u64 = v;  let r = x ^ self.a; if r & 1 == 0 { Ok(r) } else { Err(r as u8) } } }
#[cfg(kani)] #[kani::proof] #[kani::unwind(5)] fn h3() { let s0 = St { a: kani::any(), calls: 0 }; let mut d = s0; let mut o = s0; let v: u64 = kani::any(); let r1 = T3::m(&mut d, v); let r2 = { let mut obj = trait_obj!(&mut o as T3); obj.m(v) }; assert!(r1 == r2); assert!(d == o); }
#[cglue_trait]
pub trait T4 { fn m(&self, v: &[u8]) -> u64; }
impl T4 for St { fn m(&self, v: &[u8]) -> u64 { let x: u64 = v.len() as u64 + if v.len()>0 {v[0] as u64} else {0};  let r = x ^ self.a; r } }
#[cfg(kani)] #[kani::proof] #[kani::unwind(5)] fn h4() { let s0 = St { a: kani::any(), calls: 0 }; let mut d = s0; let mut o = s0; let b: [u8;3] = kani::any(); let l: usize = kani::any(); kani::assume(l<=3); let v = &b[..l]; let r1 = T4::m(&mut d, v); let r2 = { let mut obj = trait_obj!(&mut o as T4); obj.m(v) }; assert!(r1 == r2); assert!(d == o); }
#[cglue_trait]
pub trait T5 { fn m(&self, v: &[u8]) -> Option<u64>; }
impl T5 for St { fn m(&self, v: &[u8]) -> Option<u64> { let x: u64 = v.len() as u64 + if v.len()>0 {v[0] as u64} else {0};  let r = x ^ self.a; if r & 1 == 0 { Some(r) } else { None } } }
#[cfg(kani)] #[kani::proof] #[kani::unwind(5)] fn h5() { let s0 = St { a: kani::any(), calls: 0 }; let mut d = s0; let mut o = s0; let b: [u8;3] = kani::any(); let l: usize = kani::any(); kani::assume(l<=3); let v = &b[..l]; let r1 = T5::m(&mut d, v); let r2 = { let mut obj = trait_obj!(&mut o as T5); obj.m(v) }; assert!(r1 == r2); assert!(d == o); }
#[cglue_trait]
pub trait T6 { fn m(&self, v: &[u8]) -> Result<u64,u8>; }
impl T6 for St { fn m(&self, v: &[u8]) -> Result<u64,u8> { let x: u64 = v.len() as u64 + if v.len()>0 {v[0] as u64} else {0};  let r = x ^ self.a; if r & 1 == 0 { Ok(r) } else { Err(r as u8) } } }
#[cfg(kani)] #[kani::proof] #[kani::unwind(5)] fn h6() { let s0 = St { a: kani::any(), calls: 0 }; let mut d = s0; let mut o = s0; let b: [u8;3] = kani::any(); let l: usize = kani::any(); kani::assume(l<=3); let v = &b[..l]; let r1 = T6::m(&mut d, v); let r2 = { let mut obj = trait_obj!(&mut o as T6); obj.m(v) }; assert!(r1 == r2); assert!(d == o); }
#[cglue_trait]
pub trait T7 { fn m(&self, v: Option<u32>) -> u64; }
impl T7 for St { fn m(&self, v: Option<u32>) -> u64 { let x: u64 = v.map(|x| x as u64).unwrap_or(7);  let r = x ^ self.a; r } }
#[cfg(kani)] #[kani::proof] #[kani::unwind(5)] fn h7() { let s0 = St { a: kani::any(), calls: 0 }; let mut d = s0; let mut o = s0; let v: Option<u32> = if kani::any() {Some(kani::any())} else {None}; let r1 = T7::m(&mut d, v); let r2 = { let mut obj = trait_obj!(&mut o as T7); obj.m(v) }; assert!(r1 == r2); assert!(d == o); }
#[cglue_trait]
pub trait T8 { fn m(&self, v: Option<u32>) -> Option<u64>; }
impl T8 for St { fn m(&self, v: Option<u32>) -> Option<u64> { let x: u64 = v.map(|x| x as u64).unwrap_or(7);  let r = x ^ self.a; if r & 1 == 0 { Some(r) } else { None } } }
#[cfg(kani)] #[kani::proof] #[kani::unwind(5)] fn h8() { let s0 = St { a: kani::any(), calls: 0 }; let mut d = s0; let mut o = s0; let v: Option<u32> = if kani::any() {Some(kani::any())} else {None}; let r1 = T8::m(&mut d, v); let r2 = { let mut obj = trait_obj!(&mut o as T8); obj.m(v) }; assert!(r1 == r2); assert!(d == o); }
#[cglue_trait]
pub trait T9 { fn m(&self, v: Option<u32>) -> Result<u64,u8>; }
impl T9 for St { fn m(&self, v: Option<u32>) -> Result<u64,u8> { let x: u64 = v.map(|x| x as u64).unwrap_or(7);  let r = x ^ self.a; if r & 1 == 0 { Ok(r) } else { Err(r as u8) } } }
#[cfg(kani)] #[kani::proof] #[kani::unwind(5)] fn h9() { let s0 = St { a: kani::any(), calls: 0 }; let mut d = s0; let mut o = s0; let v: Option<u32> = if kani::any() {Some(kani::any())} else {None}; let r1 = T9::m(&mut d, v); let r2 = { let mut obj = trait_obj!(&mut o as T9); obj.m(v) }; assert!(r1 == r2); assert!(d == o); }
#[cglue_trait]
pub trait T10 { fn m(&self, v: &str) -> u64; }
impl T10 for St { fn m(&self, v: &str) -> u64 { let x: u64 = v.len() as u64;  let r = x ^ self.a; r } }
#[cfg(kani)] #[kani::proof] #[kani::unwind(5)] fn h10() { let s0 = St { a: kani::any(), calls: 0 }; let mut d = s0; let mut o = s0; let b: [u8;3] = [kani::any::<u8>()&0x7f, kani::any::<u8>()&0x7f, kani::any::<u8>()&0x7f]; let l: usize = kani::any(); kani::assume(l<=3); let v = unsafe{core::str::from_utf8_unchecked(&b[..l])}; let r1 = T10::m(&mut d, v); let r2 = { let mut obj = trait_obj!(&mut o as T10); obj.m(v) }; assert!(r1 == r2); assert!(d == o); }
#[cglue_trait]
pub trait T11 { fn m(&self, v: &str) -> Option<u64>; }
impl T11 for St { fn m(&self, v: &str) -> Option<u64> { let x: u64 = v.len() as u64;  let r = x ^ self.a; if r & 1 == 0 { Some(r) } else { None } } }
#[cfg(kani)] #[kani::proof] #[kani::unwind(5)] fn h11() { let s0 = St { a: kani::any(), calls: 0 }; let mut d = s0; let mut o = s0; let b: [u8;3] = [kani::any::<u8>()&0x7f, kani::any::<u8>()&0x7f, kani::any::<u8>()&0x7f]; let l: usize = kani::any(); kani::assume(l<=3); let v = unsafe{core::str::from_utf8_unchecked(&b[..l])}; let r1 = T11::m(&mut d, v); let r2 = { let mut obj = trait_obj!(&mut o as T11); obj.m(v) }; assert!(r1 == r2); assert!(d == o); }
#[cglue_trait]
pub trait T12 { fn m(&self, v: &str) -> Result<u64,u8>; }
impl T12 for St { fn m(&self, v: &str) -> Result<u64,u8> { let x: u64 = v.len() as u64;  let r = x ^ self.a; if r & 1 == 0 { Ok(r) } else { Err(r as u8) } } }
#[cfg(kani)] #[kani::proof] #[kani::unwind(5)] fn h12() { let s0 = St { a: kani::any(), calls: 0 }; let mut d = s0; let mut o = s0; let b: [u8;3] = [kani::any::<u8>()&0x7f, kani::any::<u8>()&0x7f, kani::any::<u8>()&0x7f]; let l: usize = kani::any(); kani::assume(l<=3); let v = unsafe{core::str::from_utf8_unchecked(&b[..l])}; let r1 = T12::m(&mut d, v); let r2 = { let mut obj = trait_obj!(&mut o as T12); obj.m(v) }; assert!(r1 == r2); assert!(d == o); }
#[cglue_trait]
pub trait T13 { fn m(&self, v: Result<u32,u8>) -> u64; }
impl T13 for St { fn m(&self, v: Result<u32,u8>) -> u64 { let x: u64 = match v { Ok(a)=>a as u64, Err(b)=>b as u64 + 1000 };  let r = x ^ self.a; r } }
#[cfg(kani)] #[kani::proof] #[kani::unwind(5)] fn h13() { let s0 = St { a: kani::any(), calls: 0 }; let mut d = s0; let mut o = s0; let v: Result<u32,u8> = if kani::any() {Ok(kani::any())} else {Err(kani::any())}; let r1 = T13::m(&mut d, v); let r2 = { let mut obj = trait_obj!(&mut o as T13); obj.m(v) }; assert!(r1 == r2); assert!(d == o); }
#[cglue_trait]
pub trait T14 { fn m(&self, v: Result<u32,u8>) -> Option<u64>; }
impl T14 for St { fn m(&self, v: Result<u32,u8>) -> Option<u64> { let x: u64 = match v { Ok(a)=>a as u64, Err(b)=>b as u64 + 1000 };  let r = x ^ self.a; if r & 1 == 0 { Some(r) } else { None } } }
#[cfg(kani)] #[kani::proof] #[kani::unwind(5)] fn h14() { let s0 = St { a: kani::any(), calls: 0 }; let mut d = s0; let mut o = s0; let v: Result<u32,u8> = if kani::any() {Ok(kani::any())} else {Err(kani::any())}; let r1 = T14::m(&mut d, v); let r2 = { let mut obj = trait_obj!(&mut o as T14); obj.m(v) }; assert!(r1 == r2); assert!(d == o); }
#[cglue_trait]
pub trait T15 { fn m(&self, v: Result<u32,u8>) -> Result<u64,u8>; }
impl T15 for St { fn m(&self, v: Result<u32,u8>) -> Result<u64,u8> { let x: u64 = match v { Ok(a)=>a as u64, Err(b)=>b as u64 + 1000 };  let r = x ^ self.a; if r & 1 == 0 { Ok(r) } else { Err(r as u8) } } }
#[cfg(kani)] #[kani::proof] #[kani::unwind(5)] fn h15() { let s0 = St { a: kani::any(), calls: 0 }; let mut d = s0; let mut o = s0; let v: Result<u32,u8> = if kani::any() {Ok(kani::any())} else {Err(kani::any())}; let r1 = T15::m(&mut d, v); let r2 = { let mut obj = trait_obj!(&mut o as T15); obj.m(v) }; assert!(r1 == r2); assert!(d == o); }
#[cglue_trait]
pub trait T16 { fn m(&mut self, v: u64) -> u64; }
impl T16 for St { fn m(&mut self, v: u64) -> u64 { let x: u64 = v; self.calls += 1; self.a = self.a.wrapping_add(x); let r = x ^ self.a; r } }
#[cfg(kani)] #[kani::proof] #[kani::unwind(5)] fn h16() { let s0 = St { a: kani::any(), calls: 0 }; let mut d = s0; let mut o = s0; let v: u64 = kani::any(); let r1 = T16::m(&mut d, v); let r2 = { let mut obj = trait_obj!(&mut o as T16); obj.m(v) }; assert!(r1 == r2); assert!(d == o); }
#[cglue_trait]
pub trait T17 { fn m(&mut self, v: u64) -> Option<u64>; }
impl T17 for St { fn m(&mut self, v: u64) -> Option<u64> { let x: u64 = v; self.calls += 1; self.a = self.a.wrapping_add(x); let r = x ^ self.a; if r & 1 == 0 { Some(r) } else { None } } }
#[cfg(kani)] #[kani::proof] #[kani::unwind(5)] fn h17() { let s0 = St { a: kani::any(), calls: 0 }; let mut d = s0; let mut o = s0; let v: u64 = kani::any(); let r1 = T17::m(&mut d, v); let r2 = { let mut obj = trait_obj!(&mut o as T17); obj.m(v) }; assert!(r1 == r2); assert!(d == o); }
#[cglue_trait]
pub trait T18 { fn m(&mut self, v: u64) -> Result<u64,u8>; }
impl T18 for St { fn m(&mut self, v: u64) -> Result<u64,u8> { let x: u64 = v; self.calls += 1; self.a = self.a.wrapping_add(x); let r = x ^ self.a; if r & 1 == 0 { Ok(r) } else { Err(r as u8) } } }
#[cfg(kani)] #[kani::proof] #[kani::unwind(5)] fn h18() { let s0 = St { a: kani::any(), calls: 0 }; let mut d = s0; let mut o = s0; let v: u64 = kani::any(); let r1 = T18::m(&mut d, v); let r2 = { let mut obj = trait_obj!(&mut o as T18); obj.m(v) }; assert!(r1 == r2); assert!(d == o); }
#[cglue_trait]
pub trait T19 { fn m(&mut self, v: &[u8]) -> u64; }
impl T19 for St { fn m(&mut self, v: &[u8]) -> u64 { let x: u64 = v.len() as u64 + if v.len()>0 {v[0] as u64} else {0}; self.calls += 1; self.a = self.a.wrapping_add(x); let r = x ^ self.a; r } }
#[cfg(kani)] #[kani::proof] #[kani::unwind(5)] fn h19() { let s0 = St { a: kani::any(), calls: 0 }; let mut d = s0; let mut o = s0; let b: [u8;3] = kani::any(); let l: usize = kani::any(); kani::assume(l<=3); let v = &b[..l]; let r1 = T19::m(&mut d, v); let r2 = { let mut obj = trait_obj!(&mut o as T19); obj.m(v) }; assert!(r1 == r2); assert!(d == o); }
#[cglue_trait]
pub trait T20 { fn m(&mut self, v: &[u8]) -> Option<u64>; }
impl T20 for St { fn m(&mut self, v: &[u8]) -> Option<u64> { let x: u64 = v.len() as u64 + if v.len()>0 {v[0] as u64} else {0}; self.calls += 1; self.a = self.a.wrapping_add(x); let r = x ^ self.a; if r & 1 == 0 { Some(r) } else { None } } }
#[cfg(kani)] #[kani::proof] #[kani::unwind(5)] fn h20() { let s0 = St { a: kani::any(), calls: 0 }; let mut d = s0; let mut o = s0; let b: [u8;3] = kani::any(); let l: usize = kani::any(); kani::assume(l<=3); let v = &b[..l]; let r1 = T20::m(&mut d, v); let r2 = { let mut obj = trait_obj!(&mut o as T20); obj.m(v) }; assert!(r1 == r2); assert!(d == o); }
#[cglue_trait]
pub trait T21 { fn m(&mut self, v: &[u8]) -> Result<u64,u8>; }
impl T21 for St { fn m(&mut self, v: &[u8]) -> Result<u64,u8> { let x: u64 = v.len() as u64 + if v.len()>0 {v[0] as u64} else {0}; self.calls += 1; self.a = self.a.wrapping_add(x); let r = x ^ self.a; if r & 1 == 0 { Ok(r) } else { Err(r as u8) } } }
#[cfg(kani)] #[kani::proof] #[kani::unwind(5)] fn h21() { let s0 = St { a: kani::any(), calls: 0 }; let mut d = s0; let mut o = s0; let b: [u8;3] = kani::any(); let l: usize = kani::any(); kani::assume(l<=3); let v = &b[..l]; let r1 = T21::m(&mut d, v); let r2 = { let mut obj = trait_obj!(&mut o as T21); obj.m(v) }; assert!(r1 == r2); assert!(d == o); }
#[cglue_trait]
pub trait T22 { fn m(&mut self, v: Option<u32>) -> u64; }
impl T22 for St { fn m(&mut self, v: Option<u32>) -> u64 { let x: u64 = v.map(|x| x as u64).unwrap_or(7); self.calls += 1; self.a = self.a.wrapping_add(x); let r = x ^ self.a; r } }
#[cfg(kani)] #[kani::proof] #[kani::unwind(5)] fn h22() { let s0 = St { a: kani::any(), calls: 0 }; let mut d = s0; let mut o = s0; let v: Option<u32> = if kani::any() {Some(kani::any())} else {None}; let r1 = T22::m(&mut d, v); let r2 = { let mut obj = trait_obj!(&mut o as T22); obj.m(v) }; assert!(r1 == r2); assert!(d == o); }
#[cglue_trait]
pub trait T23 { fn m(&mut self, v: Option<u32>) -> Option<u64>; }
impl T23 for St { fn m(&mut self, v: Option<u32>) -> Option<u64> { let x: u64 = v.map(|x| x as u64).unwrap_or(7); self.calls += 1; self.a = self.a.wrapping_add(x); let r = x ^ self.a; if r & 1 == 0 { Some(r) } else { None } } }
#[cfg(kani)] #[kani::proof] #[kani::unwind(5)] fn h23() { let s0 = St { a: kani::any(), calls: 0 }; let mut d = s0; let mut o = s0; let v: Option<u32> = if kani::any() {Some(kani::any())} else {None}; let r1 = T23::m(&mut d, v); let r2 = { let mut obj = trait_obj!(&mut o as T23); obj.m(v) }; assert!(r1 == r2); assert!(d == o); }
#[cglue_trait]
pub trait T24 { fn m(&mut self, v: Option<u32>) -> Result<u64,u8>; }
impl T24 for St { fn m(&mut self, v: Option<u32>) -> Result<u64,u8> { let x: u64 = v.map(|x| x as u64).unwrap_or(7); self.calls += 1; self.a = self.a.wrapping_add(x); let r = x ^ self.a; if r & 1 == 0 { Ok(r) } else { Err(r as u8) } } }
#[cfg(kani)] #[kani::proof] #[kani::unwind(5)] fn h24() { let s0 = St { a: kani::any(), calls: 0 }; let mut d = s0; let mut o = s0; let v: Option<u32> = if kani::any() {Some(kani::any())} else {None}; let r1 = T24::m(&mut d, v); let r2 = { let mut obj = trait_obj!(&mut o as T24); obj.m(v) }; assert!(r1 == r2); assert!(d == o); }
#[cglue_trait]
pub trait T25 { fn m(&mut self, v: &str) -> u64; }
impl T25 for St { fn m(&mut self, v: &str) -> u64 { let x: u64 = v.len() as u64; self.calls += 1; self.a = self.a.wrapping_add(x); let r = x ^ self.a; r } }
#[cfg(kani)] #[kani::proof] #[kani::unwind(5)] fn h25() { let s0 = St { a: kani::any(), calls: 0 }; let mut d = s0; let mut o = s0; let b: [u8;3] = [kani::any::<u8>()&0x7f, kani::any::<u8>()&0x7f, kani::any::<u8>()&0x7f]; let l: usize = kani::any(); kani::assume(l<=3); let v = unsafe{core::str::from_utf8_unchecked(&b[..l])}; let r1 = T25::m(&mut d, v); let r2 = { let mut obj = trait_obj!(&mut o as T25); obj.m(v) }; assert!(r1 == r2); assert!(d == o); }
#[cglue_trait]
pub trait T26 { fn m(&mut self, v: &str) -> Option<u64>; }
impl T26 for St { fn m(&mut self, v: &str) -> Option<u64> { let x: u64 = v.len() as u64; self.calls += 1; self.a = self.a.wrapping_add(x); let r = x ^ self.a; if r & 1 == 0 { Some(r) } else { None } } }
#[cfg(kani)] #[kani::proof] #[kani::unwind(5)] fn h26() { let s0 = St { a: kani::any(), calls: 0 }; let mut d = s0; let mut o = s0; let b: [u8;3] = [kani::any::<u8>()&0x7f, kani::any::<u8>()&0x7f, kani::any::<u8>()&0x7f]; let l: usize = kani::any(); kani::assume(l<=3); let v = unsafe{core::str::from_utf8_unchecked(&b[..l])}; let r1 = T26::m(&mut d, v); let r2 = { let mut obj = trait_obj!(&mut o as T26); obj.m(v) }; assert!(r1 == r2); assert!(d == o); }
#[cglue_trait]
pub trait T27 { fn m(&mut self, v: &str) -> Result<u64,u8>; }
impl T27 for St { fn m(&mut self, v: &str) -> Result<u64,u8> { let x: u64 = v.len() as u64; self.calls += 1; self.a = self.a.wrapping_add(x); let r = x ^ self.a; if r & 1 == 0 { Ok(r) } else { Err(r as u8) } } }
#[cfg(kani)] #[kani::proof] #[kani::unwind(5)] fn h27() { let s0 = St { a: kani::any(), calls: 0 }; let mut d = s0; let mut o = s0; let b: [u8;3] = [kani::any::<u8>()&0x7f, kani::any::<u8>()&0x7f, kani::any::<u8>()&0x7f]; let l: usize = kani::any(); kani::assume(l<=3); let v = unsafe{core::str::from_utf8_unchecked(&b[..l])}; let r1 = T27::m(&mut d, v); let r2 = { let mut obj = trait_obj!(&mut o as T27); obj.m(v) }; assert!(r1 == r2); assert!(d == o); }
#[cglue_trait]
pub trait T28 { fn m(&mut self, v: Result<u32,u8>) -> u64; }
impl T28 for St { fn m(&mut self, v: Result<u32,u8>) -> u64 { let x: u64 = match v { Ok(a)=>a as u64, Err(b)=>b as u64 + 1000 }; self.calls += 1; self.a = self.a.wrapping_add(x); let r = x ^ self.a; r } }
#[cfg(kani)] #[kani::proof] #[kani::unwind(5)] fn h28() { let s0 = St { a: kani::any(), calls: 0 }; let mut d = s0; let mut o = s0; let v: Result<u32,u8> = if kani::any() {Ok(kani::any())} else {Err(kani::any())}; let r1 = T28::m(&mut d, v); let r2 = { let mut obj = trait_obj!(&mut o as T28); obj.m(v) }; assert!(r1 == r2); assert!(d == o); }
#[cglue_trait]
pub trait T29 { fn m(&mut self, v: Result<u32,u8>) -> Option<u64>; }
impl T29 for St { fn m(&mut self, v: Result<u32,u8>) -> Option<u64> { let x: u64 = match v { Ok(a)=>a as u64, Err(b)=>b as u64 + 1000 }; self.calls += 1; self.a = self.a.wrapping_add(x); let r = x ^ self.a; if r & 1 == 0 { Some(r) } else { None } } }
#[cfg(kani)] #[kani::proof] #[kani::unwind(5)] fn h29() { let s0 = St { a: kani::any(), calls: 0 }; let mut d = s0; let mut o = s0; let v: Result<u32,u8> = if kani::any() {Ok(kani::any())} else {Err(kani::any())}; let r1 = T29::m(&mut d, v); let r2 = { let mut obj = trait_obj!(&mut o as T29); obj.m(v) }; assert!(r1 == r2); assert!(d == o); }
#[cglue_trait]
pub trait T30 { fn m(&mut self, v: Result<u32,u8>) -> Result<u64,u8>; }
impl T30 for St { fn m(&mut self, v: Result<u32,u8>) -> Result<u64,u8> { let x: u64 = match v { Ok(a)=>a as u64, Err(b)=>b as u64 + 1000 }; self.calls += 1; self.a = self.a.wrapping_add(x); let r = x ^ self.a; if r & 1 == 0 { Ok(r) } else { Err(r as u8) } } }
#[cfg(kani)] #[kani::proof] #[kani::unwind(5)] fn h30() { let s0 = St { a: kani::any(), calls: 0 }; let mut d = s0; let mut o = s0; let v: Result<u32,u8> = if kani::any() {Ok(kani::any())} else {Err(kani::any())}; let r1 = T30::m(&mut d, v); let r2 = { let mut obj = trait_obj!(&mut o as T30); obj.m(v) }; assert!(r1 == r2); assert!(d == o); }
