use super::*;
use cglue::prelude::v1::*;
use cglue::trait_group::GetVtblBase;

#[kani::proof]
#[kani::unwind(10)]
fn vtbl_words_in_decl_order() {
    let st = St { val: kani::any(), calls: 0, last: 0 };
    let obj = trait_obj!(st as Counter);
    let vt: &CounterVtbl<_> = obj.get_vtbl_base();
    // exactly 6 pointer-sized slots (trailing PhantomData is zero-sized)
    assert!(core::mem::size_of_val(vt) == 6 * core::mem::size_of::<usize>());
    assert!(core::mem::align_of_val(vt) == core::mem::align_of::<usize>());
    let words = vt as *const _ as *const usize;
    unsafe {
        assert!(*words.add(0) == vt.get() as usize);
        assert!(*words.add(1) == vt.add() as usize);
        assert!(*words.add(2) == vt.fill() as usize);
        assert!(*words.add(3) == vt.checked() as usize);
        assert!(*words.add(4) == vt.opt() as usize);
        assert!(*words.add(5) == vt.finish() as usize);
    }
}

#[kani::proof]
#[kani::unwind(10)]
fn group_words() {
    let st = St { val: kani::any(), calls: 0, last: 0 };
    let has: bool = kani::any();
    let grp = GrpBaseBox::new(CBox::from(st), Default::default(), if has { Some(Default::default()) } else { None });
    let grp = grp.into_opaque();
    let words = &grp as *const _ as *const usize;
    assert!(core::mem::size_of_val(&grp) == 4 * core::mem::size_of::<usize>());
    unsafe {
        assert!(*words.add(0) != 0);
        assert!((*words.add(1) != 0) == has);
        assert!(*words.add(2) != 0 && *words.add(3) != 0);
    }
    assert!(grp.check_impl_other() == has);
}

#[kani::proof]
#[kani::unwind(10)]
fn vtbl_words_negative_twin() {
    let st = St { val: kani::any(), calls: 0, last: 0 };
    let obj = trait_obj!(st as Counter);
    let vt: &CounterVtbl<_> = obj.get_vtbl_base();
    let words = vt as *const _ as *const usize;
    unsafe { assert!(*words.add(0) == vt.add() as usize); }
}
