use cglue::task::CRefWaker;
use core::mem::ManuallyDrop;
use core::task::{RawWaker, RawWakerVTable, Waker};
use super::p2::Cnt;

unsafe fn w_clone(p: *const ()) -> RawWaker { let c = &mut *(p as *mut Cnt); if c.live <= 0 { c.bad = true; } c.live += 1; RawWaker::new(p, &VT) }
unsafe fn w_wake(p: *const ()) { let c = &mut *(p as *mut Cnt); if c.live <= 0 { c.bad = true; } c.wakes += 1; c.live -= 1; }
unsafe fn w_wake_by_ref(p: *const ()) { let c = &mut *(p as *mut Cnt); if c.live <= 0 { c.bad = true; } c.wakes += 1; }
unsafe fn w_drop(p: *const ()) { let c = &mut *(p as *mut Cnt); if c.live <= 0 { c.bad = true; } c.live -= 1; }
static VT: RawWakerVTable = RawWakerVTable::new(w_clone, w_wake, w_wake_by_ref, w_drop);

struct H { w: ManuallyDrop<Waker>, alive: bool, end: u8, by_wake: bool }
fn phase(h: &mut H, p: u8, wbr: bool, wakes: &mut u32) {
    if h.alive && wbr { h.w.wake_by_ref(); *wakes += 1; }
    if h.alive && h.end == p {
        h.alive = false;
        let w = unsafe { ManuallyDrop::take(&mut h.w) };
        if h.by_wake { w.wake(); *wakes += 1; } else { drop(w); }
    }
}

#[kani::proof]
#[kani::unwind(2)]
fn waker_skeleton_chain2() {
    let mut cnt = Cnt { live: 1, wakes: 0, bad: false };
    let orig = unsafe { Waker::from_raw(RawWaker::new(&mut cnt as *mut Cnt as *const (), &VT)) };
    let mut wakes = 0u32;
    let ea: u8 = kani::any(); let eb: u8 = kani::any(); kani::assume(ea < 3 && eb < 3);
    let (wa, wb) = {
        let cw = CRefWaker::from(&orig);
        cw.with_waker(|w| {
            let a = w.clone();
            let b = a.clone();
            let mut ha = H { w: ManuallyDrop::new(a), alive: true, end: ea, by_wake: kani::any() };
            let mut hb = H { w: ManuallyDrop::new(b), alive: true, end: eb, by_wake: kani::any() };
            if kani::any() { w.wake_by_ref(); wakes += 1; }
            phase(&mut ha, 0, kani::any(), &mut wakes); phase(&mut hb, 0, kani::any(), &mut wakes);
            phase(&mut hb, 1, kani::any(), &mut wakes); phase(&mut ha, 1, kani::any(), &mut wakes);
            (ha, hb)
        })
    };
    let (mut ha, mut hb) = (wa, wb);
    phase(&mut ha, 2, kani::any(), &mut wakes); phase(&mut hb, 2, kani::any(), &mut wakes);
    let c = unsafe { &*(&cnt as *const Cnt) };
    assert!(!ha.alive && !hb.alive);
    assert!(!c.bad);
    assert!(c.live == 1);
    assert!(c.wakes == wakes);
    core::mem::forget(orig);
}
