use cglue::task::CRefWaker;
use core::task::{RawWaker, RawWakerVTable, Waker};

pub struct Cnt { pub live: i32, pub wakes: u32, pub bad: bool }

unsafe fn w_clone(p: *const ()) -> RawWaker { let c = &mut *(p as *mut Cnt); if c.live <= 0 { c.bad = true; } c.live += 1; RawWaker::new(p, &VT) }
unsafe fn w_wake(p: *const ()) { let c = &mut *(p as *mut Cnt); if c.live <= 0 { c.bad = true; } c.wakes += 1; c.live -= 1; }
unsafe fn w_wake_by_ref(p: *const ()) { let c = &mut *(p as *mut Cnt); if c.live <= 0 { c.bad = true; } c.wakes += 1; }
unsafe fn w_drop(p: *const ()) { let c = &mut *(p as *mut Cnt); if c.live <= 0 { c.bad = true; } c.live -= 1; }
static VT: RawWakerVTable = RawWakerVTable::new(w_clone, w_wake, w_wake_by_ref, w_drop);

#[kani::proof]
#[kani::unwind(4)]
fn waker_clone_twice_drop() {
    let mut cnt = Cnt { live: 1, wakes: 0, bad: false };
    let orig = unsafe { Waker::from_raw(RawWaker::new(&mut cnt as *mut Cnt as *const (), &VT)) };
    {
        let cw = CRefWaker::from(&orig);
        cw.with_waker(|w| {
            let a = w.clone();
            let b = a.clone();
            drop(a);
            drop(b);
        });
    }
    let c = unsafe { &*(&cnt as *const Cnt) };
    assert!(!c.bad);
    assert!(c.live == 1);
    core::mem::forget(orig);
}

#[kani::proof]
#[kani::unwind(4)]
fn waker_clone_once_wake() {
    let mut cnt = Cnt { live: 1, wakes: 0, bad: false };
    let orig = unsafe { Waker::from_raw(RawWaker::new(&mut cnt as *mut Cnt as *const (), &VT)) };
    {
        let cw = CRefWaker::from(&orig);
        cw.with_waker(|w| {
            w.wake_by_ref();
            let a = w.clone();
            a.wake();
        });
    }
    let c = unsafe { &*(&cnt as *const Cnt) };
    assert!(!c.bad);
    assert!(c.live == 1);
    assert!(c.wakes == 2);
    core::mem::forget(orig);
}
