use cglue::prelude::v1::*;
use cglue::vec::CVec;
use cglue::task::CRefWaker;
use core::task::{RawWaker, RawWakerVTable, Waker};

// ---------- C11: one inductive step, len=4 exact capacity, u64, all ops symbolic
fn mk64(n0: usize, cap: usize) -> (CVec<u64>, [u64; 8], usize) {
    let mut v: Vec<u64> = Vec::with_capacity(cap);
    let mut m = [0u64; 8];
    let mut i = 0;
    while i < n0 { let x: u64 = kani::any(); v.push(x); m[i] = x; i += 1; }
    (CVec::from(v), m, n0)
}
fn step64(cv: &mut CVec<u64>, m: &mut [u64; 8], len: &mut usize) {
    let op: u8 = kani::any();
    match op {
        0 => { let v: u64 = kani::any(); cv.push(v); m[*len] = v; *len += 1; }
        1 => { let r = cv.pop(); if *len == 0 { assert!(r.is_none()); } else { *len -= 1; assert!(r == Some(m[*len])); } }
        2 => { let idx: usize = kani::any(); kani::assume(idx <= *len); let v: u64 = kani::any(); cv.insert(idx, v);
               let mut j = *len; while j > idx { m[j] = m[j-1]; j -= 1; } m[idx] = v; *len += 1; }
        3 => { let idx: usize = kani::any(); kani::assume(idx < *len); let r = cv.remove(idx); assert!(r == m[idx]);
               let mut j = idx; while j + 1 < *len { m[j] = m[j+1]; j += 1; } *len -= 1; }
        _ => { let a: usize = kani::any(); kani::assume(a <= 3); cv.reserve(a); assert!(cv.capacity() - cv.len() >= a); }
    }
}
#[kani::proof]
#[kani::unwind(7)]
fn cvec64_len4_exact_step() {
    let (mut cv, mut m, mut len) = mk64(4, 4);
    step64(&mut cv, &mut m, &mut len);
    assert!(cv.len() == len && cv.capacity() >= len);
    let mut j = 0; while j < len { assert!(cv[j] == m[j]); j += 1; }
}

// ---------- C19: symbolic op sequence over a pool of 2 foreign wakers, k=3
pub struct Cnt { pub live: i32, pub wakes: u32, pub bad: bool }
unsafe fn w_clone(p: *const ()) -> RawWaker { let c = &mut *(p as *mut Cnt); if c.live <= 0 { c.bad = true; } c.live += 1; RawWaker::new(p, &VT) }
unsafe fn w_wake(p: *const ()) { let c = &mut *(p as *mut Cnt); if c.live <= 0 { c.bad = true; } c.wakes += 1; c.live -= 1; }
unsafe fn w_wake_by_ref(p: *const ()) { let c = &mut *(p as *mut Cnt); if c.live <= 0 { c.bad = true; } c.wakes += 1; }
unsafe fn w_drop(p: *const ()) { let c = &mut *(p as *mut Cnt); if c.live <= 0 { c.bad = true; } c.live -= 1; }
static VT: RawWakerVTable = RawWakerVTable::new(w_clone, w_wake, w_wake_by_ref, w_drop);

#[kani::proof]
#[kani::unwind(2)]
fn waker_seq_k3_single_slot() {
    // sequences that never hold two foreign wakers sharing one record: expected to pass on the unchanged tree
    let mut cnt = Cnt { live: 1, wakes: 0, bad: false };
    let orig = unsafe { Waker::from_raw(RawWaker::new(&mut cnt as *mut Cnt as *const (), &VT)) };
    let mut expect_wakes = 0u32;
    {
        let cw = CRefWaker::from(&orig);
        cw.with_waker(|w| {
            let mut slot: Option<Waker> = None;
            macro_rules! step { () => {{
                let op: u8 = kani::any();
                match op {
                    0 => { if slot.is_none() { slot = Some(w.clone()); } }
                    1 => { w.wake_by_ref(); expect_wakes += 1; }
                    2 => { if let Some(s) = slot.take() { s.wake(); expect_wakes += 1; } }
                    3 => { if let Some(s) = slot.as_ref() { s.wake_by_ref(); expect_wakes += 1; } }
                    _ => { slot = None; }
                }
            }}}
            step!(); step!(); step!();
        });
    }
    let c = unsafe { &*(&cnt as *const Cnt) };
    assert!(!c.bad);
    assert!(c.live == 1);
    assert!(c.wakes == expect_wakes);
    core::mem::forget(orig);
}

// ---------- C05/C16: foreign-constructed CBox over non-heap memory with its own drop function
#[repr(C)]
struct CBoxView { instance: *mut u32, drop_fn: Option<unsafe extern "C" fn(*mut u32)> }
static mut FOREIGN_DROPS: u32 = 0;
static mut FOREIGN_ARG: *mut u32 = core::ptr::null_mut();
unsafe extern "C" fn foreign_drop(p: *mut u32) { FOREIGN_DROPS += 1; FOREIGN_ARG = p; }

#[kani::proof]
fn foreign_cbox_released_by_its_own_fn() {
    let mut cell: u32 = kani::any();
    let x = cell;
    let view = CBoxView { instance: &mut cell as *mut u32, drop_fn: Some(foreign_drop) };
    assert!(core::mem::size_of::<CBoxView>() == core::mem::size_of::<CBox<u32>>());
    let b: CBox<u32> = unsafe { core::mem::transmute(view) };
    assert!(*b == x);
    let ob = b.into_opaque();
    drop(ob);
    unsafe { assert!(FOREIGN_DROPS == 1); assert!(FOREIGN_ARG == &mut cell as *mut u32); }
}
