use cglue::prelude::v1::*;
use std::sync::Arc;

#[kani::proof]
#[kani::unwind(3)]
fn carc_pool_symbolic_ops() {
    let base = Arc::new(7u32);
    let mut s0: CArc<u32> = CArc::from(base.clone());
    let mut s1: CArc<u32> = CArc::default();
    let mut live = 1usize;
    macro_rules! step { () => {{
        let op: u8 = kani::any();
        match op {
            0 => { if s1.as_ref().is_none() { s1 = s0.clone(); if s0.as_ref().is_some() { live += 1; } } }
            1 => { if s1.as_ref().is_none() { s1 = s0.take(); } }
            2 => { if s1.as_ref().is_some() { live -= 1; } s1 = CArc::default(); }
            3 => { let t = core::mem::take(&mut s1).transpose(); s1 = t.into(); }
            _ => { core::mem::swap(&mut s0, &mut s1); }
        }
        assert!(Arc::strong_count(&base) == 1 + live);
    }}}
    step!(); step!(); step!();
    if let Some(r) = s0.as_ref() { assert!(**r == 7); }
    drop(s0); drop(s1);
    assert!(Arc::strong_count(&base) == 1);
    core::mem::forget(base);
}
