use cglue::prelude::v1::*;
use cglue::result::*;
use core::convert::TryFrom;

// reference UTF-8 acceptor (RFC 3629 table), independent of core::str
fn ref_utf8(b: &[u8]) -> bool {
    let mut i = 0;
    while i < b.len() {
        let c = b[i];
        let n = if c < 0x80 { 0 }
            else if c >= 0xC2 && c <= 0xDF { 1 }
            else if c >= 0xE0 && c <= 0xEF { 2 }
            else if c >= 0xF0 && c <= 0xF4 { 3 }
            else { return false };
        if i + n >= b.len() + (if n == 0 { 1 } else { 0 }) && n != 0 { return false; }
        if n >= 1 {
            let c1 = b[i + 1];
            let (lo, hi) = match c { 0xE0 => (0xA0, 0xBF), 0xED => (0x80, 0x9F), 0xF0 => (0x90, 0xBF), 0xF4 => (0x80, 0x8F), _ => (0x80, 0xBF) };
            if c1 < lo || c1 > hi { return false; }
        }
        if n >= 2 { let c2 = b[i + 2]; if c2 < 0x80 || c2 > 0xBF { return false; } }
        if n >= 3 { let c3 = b[i + 3]; if c3 < 0x80 || c3 > 0xBF { return false; } }
        i += n + 1;
    }
    true
}

#[kani::proof]
#[kani::unwind(6)]
fn utf8_decision_4() {
    let bytes: [u8; 4] = kani::any();
    let len: usize = kani::any();
    kani::assume(len <= 4);
    let s = &bytes[..len];
    let cs = CSliceRef::from(s);
    assert!(cs.len() == len);
    assert!(cs.as_ptr() == s.as_ptr());
    let r = <&str>::try_from(cs);
    assert!(r.is_ok() == ref_utf8(s));
    if let Ok(st) = r { assert!(st.as_ptr() == s.as_ptr() && st.len() == len); }
}

#[kani::proof]
fn io_error_codes() {
    let code: i32 = kani::any();
    let e = std::io::Error::from_raw_os_error(code);
    let n = e.into_int_err().get();
    assert!(n != 0);
    if code != 0 { assert!(n == code); }
    let back = <std::io::Error as IntError>::from_int_err(core::num::NonZeroI32::new(n).unwrap());
    assert!(back.raw_os_error() == Some(n));
    core::mem::forget(back);
}

#[kani::proof]
fn int_result_roundtrip() {
    let ok: bool = kani::any();
    let v: u64 = kani::any();
    let r: Result<u64, ()> = if ok { Ok(v) } else { Err(()) };
    let mut out = core::mem::MaybeUninit::<u64>::uninit();
    let code = into_int_out_result(r, &mut out);
    assert!((code == 0) == ok);
    let back: Result<u64, ()> = unsafe { from_int_result(code, out) };
    assert!(back == r);
}
