#[cfg(kani)]
mod p6;
#[cfg(kani)]
mod p5;
#[cfg(kani)]
mod p4;
#[cfg(kani)]
mod p3;
#[cfg(kani)]
mod p2;
#[cfg(kani)]
mod c7;
#[cfg(kani)]
mod c4;
#[cfg(kani)]
mod c12;
#[cfg(kani)]
mod c6;
#[cfg(kani)]
mod wk;
#[cfg(kani)]
mod rt2;
#[cfg(kani)]
mod rt;
use cglue::*;

#[cglue_trait]
pub trait Counter {
    fn get(&self) -> u64;
    fn add(&mut self, v: u64) -> u64;
    fn fill(&mut self, out: &mut [u8], src: &[u8]) -> usize;
    #[int_result]
    fn checked(&mut self, v: u64) -> Result<u64, ()>;
    fn opt(&self, v: Option<u32>) -> Option<u64>;
    fn finish(self) -> u64;
}

#[cglue_trait]
pub trait Other {
    fn other(&self) -> u32;
}

cglue_trait_group!(Grp, Counter, { Other });

#[derive(Clone, Copy, PartialEq, Eq)]
pub struct St { pub val: u64, pub calls: u32, pub last: u8 }

impl Counter for St {
    fn get(&self) -> u64 { self.val }
    fn add(&mut self, v: u64) -> u64 { self.calls += 1; self.last = 1; self.val = self.val.wrapping_add(v); self.val }
    fn fill(&mut self, out: &mut [u8], src: &[u8]) -> usize {
        self.calls += 1; self.last = 2;
        let n = core::cmp::min(out.len(), src.len());
        let mut i = 0;
        while i < n { out[i] = src[i] ^ (self.val as u8); i += 1; }
        n
    }
    fn checked(&mut self, v: u64) -> Result<u64, ()> {
        self.calls += 1; self.last = 3;
        match self.val.checked_add(v) { Some(x) => { self.val = x; Ok(x) } None => Err(()) }
    }
    fn opt(&self, v: Option<u32>) -> Option<u64> { v.map(|x| x as u64 ^ self.val) }
    fn finish(self) -> u64 { self.val ^ 0x55 }
}
impl Other for St { fn other(&self) -> u32 { self.calls } }

cglue_impl_group!(St, Grp, { Other });

#[cfg(kani)]
mod proofs {
    use super::*;

    #[kani::proof]
    #[kani::unwind(5)]
    fn obj_equiv_box() {
        let init = St { val: kani::any(), calls: 0, last: 0 };
        let mut direct = init;
        let mut obj = trait_obj!(init as Counter);
        let mut k = 0;
        while k < 3 {
            let op: u8 = kani::any();
            match op {
                0 => assert_eq!(direct.get(), obj.get()),
                1 => { let v = kani::any(); assert_eq!(direct.add(v), obj.add(v)); }
                2 => {
                    let src: [u8; 3] = kani::any();
                    let mut o1 = [0u8; 2]; let mut o2 = [0u8; 2];
                    let l: usize = kani::any(); kani::assume(l <= 3);
                    assert_eq!(direct.fill(&mut o1, &src[..l]), obj.fill(&mut o2, &src[..l]));
                    assert!(o1[0] == o2[0] && o1[1] == o2[1]);
                }
                3 => { let v = kani::any(); assert_eq!(direct.checked(v), obj.checked(v)); }
                _ => { let v = kani::any(); assert_eq!(direct.opt(v), obj.opt(v)); }
            }
            k += 1;
        }
        assert_eq!(direct.get(), obj.get());
        assert_eq!(direct.finish(), obj.finish());
    }
}

#[cfg(kani)]
mod cstr_proofs {
    use cglue::repr_cstring::ReprCString;

    #[kani::proof]
    #[kani::unwind(6)]
    fn cstring_from_str() {
        let bytes: [u8; 3] = kani::any();
        let len: usize = kani::any();
        kani::assume(len <= 3);
        let b = &bytes[..len];
        // ASCII only (valid UTF-8) for this probe
        kani::assume(bytes[0] < 0x80 && bytes[1] < 0x80 && bytes[2] < 0x80);
        let s = unsafe { core::str::from_utf8_unchecked(b) };
        let c = ReprCString::from(s);
        let r: &str = c.as_ref();
        let rb = r.as_bytes();
        // expected: prefix up to first NUL
        let mut n = 0;
        while n < len && b[n] != 0 { n += 1; }
        assert!(rb.len() == n);
        let mut i = 0;
        while i < n { assert!(rb[i] == b[i]); i += 1; }
    }

    #[kani::proof]
    #[kani::unwind(6)]
    fn cstring_from_bytes() {
        let bytes: [u8; 3] = kani::any();
        let len: usize = kani::any();
        kani::assume(len <= 3);
        let b = &bytes[..len];
        kani::assume(bytes[0] < 0x80 && bytes[1] < 0x80 && bytes[2] < 0x80);
        let c = ReprCString::from(b);
        let r: &str = c.as_ref();
        let rb = r.as_bytes();
        let mut n = 0;
        while n < len && b[n] != 0 { n += 1; }
        assert!(rb.len() == n);
    }
}
