use cglue::prelude::v1::*;
use std::sync::Arc;

#[cglue_trait]
pub trait Leaf { fn val(&self) -> u32; }
#[cglue_trait]
pub trait Getter {
    #[wrap_with_obj(Leaf)]
    type Own: Leaf + 'static;
    #[wrap_with_obj_ref(Leaf)]
    type Ret: Leaf + 'static;
    fn get_own(&self) -> Self::Own;
    fn get_ref(&self) -> &Self::Ret;
    fn finish(self) -> u32;
}
pub struct L(u32);
impl Leaf for L { fn val(&self) -> u32 { self.0 } }
pub struct P(L);
impl Getter for P {
    type Own = L; type Ret = L;
    fn get_own(&self) -> L { L((self.0).0) }
    fn get_ref(&self) -> &L { &self.0 }
    fn finish(self) -> u32 { (self.0).0 }
}

#[kani::proof]
#[kani::unwind(4)]
fn ctx_balance_owned_child_and_consume() {
    let arc = Arc::new(());
    let x: u32 = kani::any();
    {
        let obj = trait_obj!((P(L(x)), CArc::<()>::from(arc.clone())) as Getter);
        assert!(Arc::strong_count(&arc) == 2);
        let child = obj.get_own();
        assert!(Arc::strong_count(&arc) == 3);
        let order: bool = kani::any();
        if order { drop(child); assert!(obj.finish() == x); }
        else { assert!(obj.finish() == x); assert!(Arc::strong_count(&arc) == 2); assert!(child.val() == x); drop(child); }
    }
    assert!(Arc::strong_count(&arc) == 1);
}

#[kani::proof]
#[kani::unwind(4)]
fn ctx_balance_borrowed_child() {
    let arc = Arc::new(());
    let x: u32 = kani::any();
    {
        let obj = trait_obj!((P(L(x)), CArc::<()>::from(arc.clone())) as Getter);
        { let r = obj.get_ref(); assert!(r.val() == x); }
        drop(obj);
    }
    assert!(Arc::strong_count(&arc) == 1);
}
