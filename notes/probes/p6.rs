use cglue::vec::CVec;

#[repr(C)]
struct CVecView { data: *mut u8, len: usize, capacity: usize, drop_fn: Option<unsafe extern "C" fn(*mut u8, usize, usize)>, reserve_fn: extern "C" fn(&mut CVecView, usize) -> usize }

static mut ARENA_A: [u8; 2] = [0; 2];
static mut ARENA_B: [u8; 8] = [0; 8];
static mut RESERVES: u32 = 0;
static mut DROPS: u32 = 0;
static mut DROP_ARGS: (usize, usize, usize) = (0, 0, 0);

extern "C" fn f_reserve(v: &mut CVecView, add: usize) -> usize {
    unsafe {
        RESERVES += 1;
        assert!(v.len + add <= 8);
        let mut i = 0; while i < v.len { ARENA_B[i] = *v.data.add(i); i += 1; }
        v.data = core::ptr::addr_of_mut!(ARENA_B) as *mut u8; v.capacity = 8; 8
    }
}
unsafe extern "C" fn f_drop(d: *mut u8, l: usize, c: usize) { DROPS += 1; DROP_ARGS = (d as usize, l, c); }

#[kani::proof]
#[kani::unwind(10)]
fn foreign_cvec_grows_and_frees_through_its_own_fns() {
    let x: u8 = kani::any(); let y: u8 = kani::any(); let z: u8 = kani::any();
    unsafe { ARENA_A[0] = x; ARENA_A[1] = y; }
    let view = CVecView { data: core::ptr::addr_of_mut!(ARENA_A) as *mut u8, len: 2, capacity: 2, drop_fn: Some(f_drop), reserve_fn: f_reserve };
    assert!(core::mem::size_of::<CVecView>() == core::mem::size_of::<CVec<u8>>());
    let mut v: CVec<u8> = unsafe { core::mem::transmute(view) };
    assert!(v.len() == 2 && v[0] == x && v[1] == y);
    let idx: usize = kani::any(); kani::assume(idx <= 2);
    v.insert(idx, z);                      // must grow through f_reserve, never through the host allocator
    unsafe { assert!(RESERVES == 1); }
    assert!(v.len() == 3 && v[idx] == z && v.capacity() == 8);
    drop(v);
    unsafe { assert!(DROPS == 1); assert!(DROP_ARGS == (core::ptr::addr_of!(ARENA_B) as usize, 3, 8)); }
}
