"""rustc as the oracle for C09: one probe crate whose compilation makes the compiler compute, for every
rule instance and payload class, whether the concrete and the opaque type are Send / Sync (inherent-const-
over-trait-const trick: `Pr::<T>::S` resolves to the inherent const when `T: Send` holds and to the
blanket trait's `false` otherwise, so nothing fails to compile). Running the binary prints the table."""
import json
import os
import re
import subprocess

REPO = os.environ.get("VERIF_REPO", "/repo")

LEAF_TY = {
    "ref": "&'static {P}",
    "ref_mut": "&'static mut {P}",
    "CBox": "cglue::boxed::CBox<'static, {P}>",
    "CSliceBox": "cglue::boxed::CSliceBox<'static, {P}>",
    "CArc": "cglue::arc::CArc<{P}>",
    "CArcSome": "cglue::arc::CArcSome<{P}>",
    "Fwd_ref": "cglue::forward::Fwd<&'static {P}>",
    "Fwd_ref_mut": "cglue::forward::Fwd<&'static mut {P}>",
    "Fwd_Rc": "cglue::forward::Fwd<std::rc::Rc<{P}>>",
    "Fwd_Box": "cglue::forward::Fwd<Box<{P}>>",
}

PRELUDE = r'''#![allow(dead_code, non_camel_case_types, unused)]
use cglue::trait_group::{Opaquable, NoContext};
use core::marker::PhantomData;

pub struct Pr<T: ?Sized>(PhantomData<T>);
pub trait No { const S: bool = false; const Y: bool = false; const O: bool = false; }
impl<T: ?Sized> No for Pr<T> {}
impl<T: ?Sized + Send> Pr<T> { pub const S: bool = true; }
impl<T: ?Sized + Sync> Pr<T> { pub const Y: bool = true; }
impl<T: Opaquable> Pr<T> { pub const O: bool = true; }

/// Probe instance handle: Send/Sync exactly as `A`; its opaque form is Send/Sync exactly as `B`.
pub struct Hd<A, B>(PhantomData<A>, PhantomData<fn() -> B>, u32);
impl<A, B> core::ops::Deref for Hd<A, B> { type Target = u32; fn deref(&self) -> &u32 { &self.2 } }
impl<A, B> core::ops::DerefMut for Hd<A, B> { fn deref_mut(&mut self) -> &mut u32 { &mut self.2 } }
unsafe impl<A, B> Opaquable for Hd<A, B> { type OpaqueTarget = Hd<B, B>; }

fn row(id: &str, s: bool, y: bool, o: bool) { println!("{}|{}|{}|{}", id, s as u8, y as u8, o as u8); }
'''


def public_paths(docs):
    """name -> (public path, number of lifetime params) for structs / aliases of cglue and the corpus crate."""
    out = {}
    for crate, d in docs.items():
        idx = d["index"]
        paths = d.get("paths", {})
        for k, it in idx.items():
            inner = it.get("inner") or {}
            kind = None
            for kk in ("struct", "enum", "type_alias"):
                if kk in inner:
                    kind = kk
            if not kind or not it.get("name"):
                continue
            pinfo = paths.get(k)
            if not pinfo or pinfo.get("crate_id") != 0:
                continue
            segs = [s for s in pinfo["path"] if not (s.startswith("cglue_") and s != "cglue_internal_never") and s != "cglue_internal"]
            g = inner[kind].get("generics") or {"params": []}
            nlt = len([p for p in g["params"] if "lifetime" in p["kind"]])
            ntp = [p["name"] for p in g["params"] if "type" in p["kind"]]
            out.setdefault(it["name"], ("::".join(segs), nlt, ntp, crate))
    return out


STD_PATHS = {"Box": "Box", "Rc": "std::rc::Rc", "Arc": "std::sync::Arc", "Option": "Option", "PhantomData": "core::marker::PhantomData",
             "Vec": "Vec", "Cell": "core::cell::Cell", "MaybeUninit": "core::mem::MaybeUninit"}


def render_ty(t, payload, pp):
    """Rust syntax of an encoder term whose only leaf is the payload P (None if it cannot be named)."""
    k = t[0]
    if k == "leaf":
        return payload if t[1] == "P" else None
    if k == "ref":
        inner = render_ty(t[2], payload, pp)
        return None if inner is None else ("&'static mut " if t[1] else "&'static ") + inner
    if k == "prim":
        return t[1]
    if k == "app":
        args = [render_ty(a, payload, pp) for a in t[2]]
        if any(a is None for a in args):
            return None
        if t[1] in STD_PATHS:
            return STD_PATHS[t[1]] + ("<%s>" % ", ".join(args) if args else "")
        info = pp.get(t[1])
        if not info:
            return None
        path, nlt, ntp, _crate = info
        gen = ["'static"] * nlt + args
        return path + ("<%s>" % ", ".join(gen) if gen else "")
    return None


def run(facts, enc, table_rows, docs, work, evalf, CLASSES, PAYLOAD_TY, MARK_TY, wrapper_rows=()):
    pp = public_paths(docs)
    lines = [PRELUDE, "fn main() {\n"]
    expect = {}      # row id -> dict(kind, rule, combo, enc_conc(S,Y), enc_opq(S,Y) or None)
    rid = 0
    for (r, kind, conc, opq, pre, env) in table_rows:
        head = r["head"]
        if kind == "leaf":
            tmpl = LEAF_TY.get(head)
            # a leaf rule without a hand-written template (e.g. one Opaquable impl per pointer kind of a wrapper) is named
            # from its own pattern; a rule of a known head whose pattern is NOT the plain `Head<P>` likewise
            plain = conc[0] == "ref" or (conc[0] == "app" and all(a == ("leaf", "P") for a in conc[2]))
            if not tmpl or not plain:
                tmpl = render_ty(conc, "{P}", pp)
            if not tmpl:
                continue
            for cls in CLASSES:
                ty = tmpl.replace("{P}", PAYLOAD_TY[cls])
                venv = {"send_P": cls[0], "sync_P": cls[1]}
                try:
                    e_pre = evalf(pre, venv)
                    e_c = (evalf(enc.holds("Send", conc), venv), evalf(enc.holds("Sync", conc), venv))
                    e_o = (evalf(enc.holds("Send", opq), venv), evalf(enc.holds("Sync", opq), venv))
                except Exception:
                    continue
                rid += 1
                cid = "r%d" % rid
                lines.append("    row(\"%s.c\", Pr::<%s>::S, Pr::<%s>::Y, Pr::<%s>::O);\n" % (cid, ty, ty, ty))
                if e_pre:
                    ot = "<%s as Opaquable>::OpaqueTarget" % ty
                    lines.append("    row(\"%s.o\", Pr::<%s>::S, Pr::<%s>::Y, true);\n" % (cid, ot, ot))
                expect[cid] = {"kind": kind, "rule": head, "class": cls, "enc_pre": e_pre, "enc_c": e_c, "enc_o": e_o, "ty": ty,
                               "cross": True}
        else:
            # composite: only rules whose parameters are exactly (instance, context) can be named generically
            vars_ = sorted(set(v for v in env))
            info = pp.get(head)
            if not info:
                continue
            path, nlt, tps, crate = info
            extra_vars = [v for v in env if env[v][0] == "leaf" and env[v][1].startswith("V_")]
            for a in CLASSES:
                for b in CLASSES:
                    hd = "Hd<%s, %s>" % (MARK_TY[a], MARK_TY[b])
                    args = ["'static"] * nlt
                    ok = True
                    for tp in tps:
                        if tp in env and env[tp] == ("leaf", "X"):
                            args.append(hd)
                        elif tp in env and env[tp] == ("leaf", "C"):
                            args.append("NoContext")
                        else:
                            ok = False
                    if not ok or extra_vars:
                        break
                    ty = "%s<%s>" % (path, ", ".join(args)) if args else path
                    venv = {"send_X": a[0], "sync_X": a[1], "send_X_opaque": b[0], "sync_X_opaque": b[1],
                            "send_C": True, "sync_C": True}
                    try:
                        e_pre = evalf(pre, venv)
                        e_c = (evalf(enc.holds("Send", conc), venv), evalf(enc.holds("Sync", conc), venv))
                        e_o = (evalf(enc.holds("Send", opq), venv), evalf(enc.holds("Sync", opq), venv))
                    except Exception:
                        continue
                    rid += 1
                    cid = "r%d" % rid
                    lines.append("    row(\"%s.c\", Pr::<%s>::S, Pr::<%s>::Y, Pr::<%s>::O);\n" % (cid, ty, ty, ty))
                    if e_pre:
                        ot = "<%s as Opaquable>::OpaqueTarget" % ty
                        lines.append("    row(\"%s.o\", Pr::<%s>::S, Pr::<%s>::Y, true);\n" % (cid, ot, ot))
                    expect[cid] = {"kind": kind, "rule": head, "class": (a, b), "enc_pre": e_pre, "enc_c": e_c, "enc_o": e_o,
                                   "ty": ty, "cross": True}
    wexpect = {}
    for (head, conc, std_t, std_tmpl) in wrapper_rows:
        tmpl = LEAF_TY.get(head)
        if not tmpl:
            continue
        for cls in CLASSES:
            venv = {"send_P": cls[0], "sync_P": cls[1]}
            rid += 1
            cid = "w%d" % rid
            ty = tmpl.replace("{P}", PAYLOAD_TY[cls])
            sty = std_tmpl.replace("{P}", PAYLOAD_TY[cls])
            lines.append("    row(\"%s.c\", Pr::<%s>::S, Pr::<%s>::Y, false);\n" % (cid, ty, ty))
            lines.append("    row(\"%s.s\", Pr::<%s>::S, Pr::<%s>::Y, false);\n" % (cid, sty, sty))
            wexpect[cid] = {"rule": head, "class": cls, "ty": ty, "std": sty,
                            "enc_c": (evalf(enc.holds("Send", conc), venv), evalf(enc.holds("Sync", conc), venv)),
                            "enc_s": (evalf(enc.holds("Send", std_t), venv), evalf(enc.holds("Sync", std_t), venv))}
    lines.append("}\n")
    pdir = os.path.join(work, "probe")
    os.makedirs(os.path.join(pdir, "src"), exist_ok=True)
    verif = os.path.dirname(os.path.dirname(os.path.abspath(__file__)))
    gen_dir = os.path.join(verif, "harness", "gen")
    # the gen crate's manifest may point at a lab copy of /repo: reuse whatever path it names
    gen_toml = open(os.path.join(gen_dir, "Cargo.toml")).read()
    m = re.search(r'cglue = \{ path = "([^"]+)"', gen_toml)
    cglue_path = m.group(1) if m else os.path.join(REPO, "cglue")
    open(os.path.join(pdir, "Cargo.toml"), "w").write(
        '[package]\nname = "c09probe"\nversion = "0.1.0"\nedition = "2021"\n\n[dependencies]\n'
        'cglue = { path = "%s", features = ["task"] }\ngen = { path = "%s" }\n\n[workspace]\n' % (cglue_path, gen_dir))
    src = "".join(lines)
    spath = os.path.join(pdir, "src", "main.rs")
    open(spath, "w").write(src)
    lock = os.path.join(pdir, "Cargo.lock")
    if not os.path.exists(lock):
        open(lock, "w").write(open(os.path.join(REPO, "Cargo.lock")).read())
    env = dict(os.environ)
    env.update({"CARGO_NET_OFFLINE": "true", "CARGO_TERM_COLOR": "never", "RUSTFLAGS": "-Awarnings"})
    env.pop("RUSTUP_TOOLCHAIN", None)
    p = subprocess.run(["cargo", "run", "--offline", "--quiet", "--target-dir", os.path.join(work, "target-probe")], cwd=pdir, env=env,
                       stdout=subprocess.PIPE, stderr=subprocess.PIPE, timeout=1800)
    res = {"instances": len(expect), "cells_compared": 0, "disagreements": [], "status": "agree", "confirm": {}, "rows": {},
           "source_path": spath}
    if p.returncode != 0:
        res["status"] = "probe crate failed to build/run"
        res["disagreements"] = [p.stderr.decode("utf-8", "replace")[-1500:]]
        return res
    got = {}
    for line in p.stdout.decode().splitlines():
        parts = line.strip().split("|")
        if len(parts) == 4:
            got[parts[0]] = (parts[1] == "1", parts[2] == "1", parts[3] == "1")
    for cid, e in expect.items():
        c = got.get(cid + ".c")
        o = got.get(cid + ".o")
        if c is None:
            continue
        res["rows"].setdefault(e["rule"], []).append({"type": e["ty"], "class": e["class"], "rustc_concrete": c, "rustc_opaque": o,
                                                      "encoder_concrete": e["enc_c"], "encoder_opaque": e["enc_o"] if e["enc_pre"] else None})
        # translator validation
        res["cells_compared"] += 3
        if (c[0], c[1]) != e["enc_c"]:
            res["disagreements"].append({"row": e["ty"], "what": "concrete", "rustc": c[:2], "encoder": e["enc_c"]})
        if c[2] != e["enc_pre"]:
            res["disagreements"].append({"row": e["ty"], "what": "Opaquable applies", "rustc": c[2], "encoder": e["enc_pre"]})
        if o is not None:
            res["cells_compared"] += 2
            if (o[0], o[1]) != e["enc_o"]:
                res["disagreements"].append({"row": e["ty"], "what": "opaque", "rustc": o[:2], "encoder": e["enc_o"]})
            # confirmation of "opaque has the marker, concrete does not" (for composite rows only where the probe
            # handle's own conversion adds nothing, i.e. B <= A)
            adds_nothing = True
            if e["kind"] != "leaf":
                a, b = e["class"]
                adds_nothing = (not b[0] or a[0]) and (not b[1] or a[1])
            if adds_nothing:
                for mi, mname in ((0, "Send"), (1, "Sync")):
                    if o[mi] and not c[mi]:
                        res["confirm"][(e["rule"], mname)] = True
            # carrier soundness: the composite type has the marker although its instance handle (class A) does not
            if e["kind"] != "leaf":
                a, b = e["class"]
                for mi, mname in ((0, "Send"), (1, "Sync")):
                    if c[mi] and not a[mi]:
                        res["confirm"][("carrier:" + e["rule"], mname)] = True
    for cid, e in wexpect.items():
        c = got.get(cid + ".c")
        sd = got.get(cid + ".s")
        if c is None or sd is None:
            continue
        res["cells_compared"] += 4
        if (c[0], c[1]) != e["enc_c"]:
            res["disagreements"].append({"row": e["ty"], "what": "wrapper", "rustc": c[:2], "encoder": e["enc_c"]})
        if (sd[0], sd[1]) != e["enc_s"]:
            res["disagreements"].append({"row": e["std"], "what": "std handle", "rustc": sd[:2], "encoder": e["enc_s"]})
        for mi, mname in ((0, "Send"), (1, "Sync")):
            if c[mi] and not sd[mi]:
                res["confirm"][("wrapper:" + e["rule"], mname)] = True
    for key in [(e["rule"], m) for e in expect.values() for m in ("Send", "Sync")]:
        res["confirm"].setdefault(key, False)
    if res["disagreements"]:
        res["status"] = "disagree"
    return res
