#!/usr/bin/env python3
"""C17 (C mode) - generated C wrappers forward to the right slot with the right arguments.

The tool under test (cglue-bindgen) is ~40 regular expressions over text; its OUTPUT is code, and that
is what the property is about. Pipeline per API model (models are enumerated from a small grammar):
  1. synthesize the raw header in cbindgen's documented shape (doc-comment anchors are the ones
     cglue-gen itself emits);
  2. run the REAL cglue-bindgen binary, built from /repo's working tree, with a fake `cbindgen`
     executable on PATH that prints that header;
  3. generate a C harness that #includes the processed header, gives every object a vtable of mock
     entries (each records its slot id, the container pointer / by-value container and every argument,
     and returns a nondeterministic value), calls each emitted wrapper with nondeterministic arguments
     and object contents, and asserts: exactly one slot ran, it is the entry of the same name in THAT
     object's vtable (for groups: the right vtbl_<trait>), container == &obj.container (or the
     container by value, field-wise), arguments equal and in order, result returned; consuming wrappers
     and *_drop helpers: exactly one release of instance and of context, and a context clone alive
     DURING the call;
  4. CBMC decides every assertion for all argument values. Completeness is itself asserted: a vtable
     entry for which no callable wrapper exists is a violation.
Counterexamples are replayed by compiling the same harness with gcc and the values from CBMC's trace.
Out: C++ mode (CBMC's C++ front end cannot take the generated templates/lambdas); wrappers whose
result is the container type (C mode leaves the vtable pointers of the returned object unset - upstream
behaviour, not claimed); header shapes the synthesizer does not produce.
"""
import hashlib
import itertools
import json
import os
import re
import subprocess
import sys
import time

HERE = os.path.dirname(os.path.abspath(__file__))
VERIF = os.path.dirname(HERE)
sys.path.insert(0, os.path.join(VERIF, "lib"))
REPO = os.environ.get("VERIF_REPO", "/repo")
WORK = os.path.join(VERIF, "work", "c17")

CONT_DOC = """/**
 * Simple CGlue trait object container.
 *
 * This is the simplest form of container, represented by an instance, clone context, and
 * temporary return context.
 *
 * `instance` value usually is either a reference, or a mutable reference, or a `CBox`, which
 * contains static reference to the instance, and a dedicated drop function for freeing resources.
 *
 * `context` is either `PhantomData` representing nothing, or typically a `CArc` that can be
 * cloned at will, reference counting some resource, like a `Library` for automatic unloading.
 *
 * `ret_tmp` is usually `PhantomData` representing nothing, unless the trait has functions that
 * return references to associated types, in which case space is reserved for wrapping structures.
 */
"""
RETTMP_DOC = """
/**
 * Type definition for temporary return value wrapping storage.
 *
 * The trait does not use return wrapping, thus is a typedef to `PhantomData`.
 *
 * Note that `cbindgen` will generate wrong structures for this type. It is important
 * to go inside the generated headers and fix it - all RetTmp structures without a
 * body should be completely deleted, both as types, and as fields in the
 * groups/objects. If C++11 templates are generated, it is important to define a
 * custom type for CGlueTraitObj that does not have `ret_tmp` defined, and change all
 * type aliases of this trait to use that particular structure.
 */
"""
VTBL_DOC = """/**
 * CGlue vtable for trait {t}.
 *
 * This virtual function table contains ABI-safe interface for the given trait.
 */
"""
OBJ_DOC = """/**
 * Simple CGlue trait object.
 *
 * This is the simplest form of CGlue object, represented by a container and vtable for a single
 * trait.
 *
 * Container merely is a this pointer with some optional temporary return reference context.
 */
"""

INNERS = {"Box": "CBox_c_void", "Mut": "____c_void", "Ref": "_____c_void"}
INNER_C = {"Box": "struct CBox_c_void", "Mut": "void *", "Ref": "const void *"}
CTXS = {"Arc": "CArc_c_void", "": "NoContext"}

# argument shapes: (C type, kind)
ARG_TYPES = {
    "u32": ("uint32_t", "scalar"), "u64": ("uint64_t", "scalar"), "u8": ("uint8_t", "scalar"), "i32": ("int32_t", "scalar"),
    "bool": ("bool", "scalar"), "usize": ("uintptr_t", "scalar"),
    "struct": ("struct Pt", "struct"), "slice": ("struct CSliceRef_u8", "slice"), "ptr": ("const uint32_t *", "ptr"),
    "cb": ("struct Callback_c_void__Pt", "cb"),
    "pp": ("void **", "pp"), "cpp": ("const uint8_t **", "pp"),
}
RET_TYPES = {"void": "void", "u32": "uint32_t", "u64": "uint64_t", "bool": "bool", "struct": "struct Pt", "ptr": "const uint32_t *",
             "vptr": "void *"}


def join_generic(inner, ctx):
    """cbindgen's mangling of `<Inner, Ctx>`."""
    if inner == "CBox_c_void":
        return inner + "_____" + ctx
    return inner + "__" + ctx


def models(tier, seed):
    """API models drawn from the grammar. A fixed core plus seed-rotated extras in the quick tier."""
    def M(name, recv, args=(), ret="void"):
        return {"name": name, "recv": recv, "args": list(args), "ret": ret}
    core = [
        {"id": "obj_box_arc", "prefix": None,
         "traits": [{"name": "Foo", "methods": [M("get", "ref", (), "u32"), M("set", "mut", ("u32",)), M("mix", "mut", ("u8", "u64", "struct"), "u64"),
                                                 M("finish", "own", (), "u32"), M("cancel", "own", ("u32",), "void"),
                                                 M("raw", "ref", ("u32",), "vptr"), M("leak", "own", (), "vptr")]}],
         "objects": [("Foo", "Box", "Arc"), ("Foo", "Box", "")], "groups": []},
        {"id": "default_config", "prefix": None, "default": ("Box", "Arc"),
         "traits": [{"name": "Res", "methods": [M("val", "ref", (), "u32"), M("take", "own", (), "u32")]}],
         "objects": [("Res", "Box", "Arc"), ("Res", "Box", ""), ("Res", "Mut", "Arc")],
         "groups": [("Bag", ["Res"], "Box", "Arc"), ("Bag", ["Res"], "Box", "")]},
        {"id": "same_signature_clash", "prefix": None,
         "traits": [{"name": "Rr", "methods": [M("get", "ref", (), "u32")]},
                    {"name": "Ww", "methods": [M("put", "mut", ("u32",)), M("get", "ref", (), "u32"), M("close", "own", (), "void")]}],
         "objects": [("Rr", "Box", "Arc"), ("Ww", "Box", "Arc"), ("Ww", "Mut", "Arc")], "groups": []},
        {"id": "obj_all_containers", "prefix": None,
         "traits": [{"name": "Rd", "methods": [M("peek", "ref", ("slice",), "u64"), M("ptrs", "ref", ("ptr", "usize"), "ptr")]},
                    {"name": "Wr", "methods": [M("poke", "mut", ("u32", "bool")), M("emit", "ref", ("cb",), "bool"),
                                                M("outp", "mut", ("pp", "u32"), "u32"), M("next", "ref", ("u8", "cpp"), "bool")]}],
         "objects": [("Rd", "Box", ""), ("Rd", "Ref", ""), ("Rd", "Mut", "Arc"), ("Wr", "Box", "Arc"), ("Wr", "Mut", "")], "groups": []},
        {"id": "prefix_equals_group_name", "prefix": "pack",
         "traits": [{"name": "Namer", "methods": [M("get", "ref", (), "u32"), M("label", "ref", ("u8",), "u32")]},
                    {"name": "Store", "methods": [M("put", "mut", ("u32",)), M("size", "ref", (), "u64")]}],
         "objects": [("Namer", "Box", "Arc")], "groups": [("Pack", ["Namer", "Store"], "Box", "Arc")]},
        {"id": "group_named_container", "prefix": None,
         "traits": [{"name": "Base", "methods": [M("id", "ref", (), "u32"), M("bump", "mut", ("u32",), "u32")]},
                    {"name": "Extra", "methods": [M("more", "ref", ("u64", "u8"), "u64")]}],
         "objects": [], "groups": [("ItemContainer", ["Base", "Extra"], "Box", "Arc"), ("Pack", ["Base"], "Box", "")]},
        {"id": "group_box_arc", "prefix": None,
         "traits": [{"name": "Base", "methods": [M("id", "ref", (), "u32"), M("bump", "mut", ("u32",), "u32")]},
                    {"name": "Extra", "methods": [M("more", "ref", ("u64", "u8"), "u64"), M("eat", "own", ("u32",), "u32"),
                                                   M("quit", "own", (), "void")]}],
         "objects": [], "groups": [("Grp", ["Base", "Extra"], "Box", "Arc"), ("Grp", ["Base", "Extra"], "Mut", "Arc")]},
        {"id": "clash_and_prefix", "prefix": "api",
         "traits": [{"name": "Aa", "methods": [M("run", "ref", ("u32",), "u32"), M("only", "ref", (), "u32"), M("fin", "own", (), "u32")]},
                    {"name": "Bb", "methods": [M("run", "mut", ("u64",), "u64"), M("fin", "own", (), "u32")]}],
         "objects": [("Aa", "Box", "Arc"), ("Bb", "Box", "Arc")], "groups": [("Two", ["Aa", "Bb"], "Box", "")]},
    ]
    extra = []
    shapes = [("u32",), ("u8", "u64"), ("struct", "u32"), ("slice",), ("ptr", "bool", "i32"), ("cb", "usize"), (), ("pp", "u8"), ("i32", "cpp")]
    rets = ["void", "u32", "u64", "bool", "struct", "ptr"]
    recvs = ["ref", "mut", "own"]
    # quick: one rotation of the argument/return shapes (chosen by the seed); thorough: all nine rotations
    rotations = [seed % 9] if tier != "thorough" else list(range(9))
    for rot in rotations:
        k = rot
        for inner, ctx in itertools.product(["Box", "Mut", "Ref"], ["Arc", ""]):
            ms = []
            for j in range(3):
                recv = recvs[(k + j) % 3]
                if recv == "own" and inner != "Box":
                    recv = "ref"
                if recv == "mut" and inner == "Ref":
                    recv = "ref"
                ms.append(M("m%d" % j, recv, shapes[(k + 2 * j) % len(shapes)], rets[(k + j) % len(rets)]))
            suffix = "" if tier != "thorough" else "_r%d" % rot
            extra.append({"id": "gen_%s_%s%s" % (inner.lower(), ctx.lower() or "noctx", suffix), "prefix": None,
                          "traits": [{"name": "Tr", "methods": ms}], "objects": [("Tr", inner, ctx)], "groups": []})
            k += 1
    # the whole pipeline takes seconds: both tiers use every model; the seed rotates the argument/return shapes of the
    # generated per-container models
    return core + extra


# ------------------------------------------------------------------------------------------------
# raw header synthesis
# ------------------------------------------------------------------------------------------------

def cont_names(kind, name, inner, ctx):
    """(container struct name, object/group struct name, vtable suffix) as cbindgen would mangle them."""
    I, C = INNERS[inner], CTXS[ctx]
    if kind == "obj":
        rt = "%sRetTmp_%s" % (name, C)
        cont = "CGlueObjContainer_%s_____%s" % (join_generic(I, C), rt) if I == "CBox_c_void" else \
               "CGlueObjContainer_%s__%s_____%s" % (I, C, rt)
        return cont, rt
    sec = join_generic(I, C)
    return "%sContainer_%s" % (name, sec), sec


def fn_sig(m, cont):
    recv = {"ref": "const struct %s *cont" % cont, "mut": "struct %s *cont" % cont, "own": "struct %s cont" % cont}[m["recv"]]
    args = "".join(", %s a%d" % (ARG_TYPES[a][0] if not ARG_TYPES[a][0].endswith("*") else ARG_TYPES[a][0], i)
                   for i, a in enumerate(m["args"]))
    args = args.replace("* a", "*a")
    ret = RET_TYPES[m["ret"]]
    sep = "" if ret.endswith("*") else " "
    one = "%s%s(*%s)(%s%s)" % (ret, sep, m["name"], recv, args)
    if len("    " + one + ";") <= 100 or not m["args"]:
        return one
    # cbindgen's vertical layout for declarations longer than its line_length (100): one parameter per line, aligned
    # under the first one
    head = "%s%s(*%s)(" % (ret, sep, m["name"])
    pad = " " * (4 + len(head))
    parts = [recv] + [a.strip() for a in args.split(", ") if a.strip()]
    return head + (",\n" + pad).join(parts) + ")"


def synth(model):
    traits = {t["name"]: t for t in model["traits"]}
    o = ["#include <stdarg.h>\n#include <stdbool.h>\n#include <stdint.h>\n#include <stdlib.h>\n\n"]
    o.append("typedef struct Pt {\n    uint8_t a;\n    uint32_t b;\n} Pt;\n\n")
    o.append("/**\n * FFI-safe box\n */\ntypedef struct CBox_c_void {\n    void *instance;\n    void (*drop_fn)(void*);\n} CBox_c_void;\n\n")
    o.append("/**\n * FFI-Safe Arc\n */\ntypedef struct CArc_c_void {\n    const void *instance;\n    const void *(*clone_fn)(const void*);\n    void (*drop_fn)(const void*);\n} CArc_c_void;\n\n")
    o.append("typedef struct CSliceRef_u8 {\n    const uint8_t *data;\n    uintptr_t len;\n} CSliceRef_u8;\n\n")
    o.append("typedef struct Callback_c_void__Pt {\n    void *context;\n    bool (*func)(void*, struct Pt);\n} Callback_c_void__Pt;\n\n")
    types = []   # records for the harness generator
    done_rt = set()
    for (t, inner, ctx) in model["objects"]:
        I, C = INNERS[inner], CTXS[ctx]
        cont, rt = cont_names("obj", t, inner, ctx)
        if rt not in done_rt:
            done_rt.add(rt)
            o.append(RETTMP_DOC + "typedef struct %s %s;\n\n" % (rt, rt))
        inst_decl = "struct %s instance;" % I if inner == "Box" else ("void *instance;" if inner == "Mut" else "const void *instance;")
        o.append(CONT_DOC + "typedef struct %s {\n    %s\n    %s context;\n    struct %s ret_tmp;\n} %s;\n\n" % (
            cont, inst_decl, "struct " + C if C != "NoContext" else "struct NoContext", rt, cont))
        vt = "%sVtbl_%s" % (t, cont)
        o.append(VTBL_DOC.format(t=t) + "typedef struct %s {\n%s} %s;\n\n" % (
            vt, "".join("    %s;\n" % fn_sig(m, cont) for m in traits[t]["methods"]), vt))
        objn = "CGlueTraitObj_%s_____%s______________%s_____%s" % (I, vt, C, rt) if I == "CBox_c_void" else \
               "CGlueTraitObj_%s__%s______________%s_____%s" % (I, vt, C, rt)
        o.append(OBJ_DOC + "typedef struct %s {\n    const struct %s *vtbl;\n    struct %s container;\n} %s;\n\n" % (objn, vt, cont, objn))
        types.append({"kind": "obj", "name": t, "struct": objn, "cont": cont, "inner": inner, "ctx": ctx,
                      "vtbls": [("vtbl", t, vt)]})
    for (g, ts, inner, ctx) in model["groups"]:
        I, C = INNERS[inner], CTXS[ctx]
        cont, sec = cont_names("grp", g, inner, ctx)
        for t in ts:
            rt = "%sRetTmp_%s" % (t, C)
            if rt not in done_rt:
                done_rt.add(rt)
                o.append(RETTMP_DOC + "typedef struct %s %s;\n\n" % (rt, rt))
        inst_decl = "struct %s instance;" % I if inner == "Box" else ("void *instance;" if inner == "Mut" else "const void *instance;")
        o.append("typedef struct %s {\n    %s\n    %s context;\n%s} %s;\n\n" % (
            cont, inst_decl, "struct " + C if C != "NoContext" else "struct NoContext",
            "".join("    struct %sRetTmp_%s ret_tmp_%s;\n" % (t, C, t.lower()) for t in ts), cont))
        vts = []
        for t in ts:
            vt = "%sVtbl_%s" % (t, cont)
            o.append(VTBL_DOC.format(t=t) + "typedef struct %s {\n%s} %s;\n\n" % (
                vt, "".join("    %s;\n" % fn_sig(m, cont) for m in traits[t]["methods"]), vt))
            vts.append(("vtbl_" + t.lower(), t, vt))
        gs = "%s_%s" % (g, sec)
        o.append("typedef struct %s {\n%s    struct %s container;\n} %s;\n\n" % (
            gs, "".join("    const struct %s *%s;\n" % (vt, f) for (f, t, vt) in vts), cont, gs))
        types.append({"kind": "grp", "name": g, "struct": gs, "cont": cont, "inner": inner, "ctx": ctx, "vtbls": vts})
    o.append("#ifdef __cplusplus\nextern \"C\" {\n#endif // __cplusplus\n\nvoid api_entry(void);\n\n#ifdef __cplusplus\n} // extern \"C\"\n#endif // __cplusplus\n")
    return "".join(o), types


# ------------------------------------------------------------------------------------------------
# the real tool
# ------------------------------------------------------------------------------------------------

def sh(cmd, cwd=None, env=None, timeout=1200, inp=None):
    e = dict(os.environ)
    e.update({"CARGO_NET_OFFLINE": "true", "CARGO_TERM_COLOR": "never"})
    e.pop("RUSTUP_TOOLCHAIN", None)
    if env:
        e.update(env)
    p = subprocess.run(cmd, cwd=cwd, env=e, stdout=subprocess.PIPE, stderr=subprocess.STDOUT, timeout=timeout, input=inp)
    return p.returncode, p.stdout.decode("utf-8", "replace")


def build_tool():
    tdir = os.path.join(WORK, "target")
    rc, out = sh(["cargo", "build", "--offline", "-p", "cglue-bindgen", "--target-dir", tdir], cwd=REPO)
    binp = os.path.join(tdir, "debug", "cglue-bindgen")
    if rc != 0 or not os.path.exists(binp):
        raise RuntimeError("cannot build cglue-bindgen from %s:\n%s" % (REPO, out[-2000:]))
    return binp


def run_tool(binp, raw, model, mdir):
    os.makedirs(mdir, exist_ok=True)
    rawp = os.path.join(mdir, "raw.h")
    open(rawp, "w").write(raw)
    shim_dir = os.path.join(mdir, "bin")
    os.makedirs(shim_dir, exist_ok=True)
    shim = os.path.join(shim_dir, "cbindgen")
    open(shim, "w").write("#!/bin/sh\necho \"$@\" > '%s/cbindgen.args'\ncat '%s'\n" % (mdir, rawp))
    os.chmod(shim, 0o755)
    outp = os.path.join(mdir, "out.h")
    if os.path.exists(outp):
        os.remove(outp)
    pre = []
    if model.get("prefix") or model.get("default"):
        cfg = os.path.join(mdir, "cfg.toml")
        lines = []
        if model.get("prefix"):
            lines.append('function_prefix = "%s"' % model["prefix"])
        if model.get("default"):
            lines.append('default_container = "%s"' % model["default"][0])
            lines.append('default_context = "%s"' % model["default"][1])
        open(cfg, "w").write("\n".join(lines) + "\n")
        pre = ["-c", cfg]
    rc, out = sh([binp] + pre + ["--", "-l", "c", "-o", outp, "some_crate"], env={"PATH": shim_dir + ":" + os.environ.get("PATH", "")})
    if rc != 0 or not os.path.exists(outp):
        return None, "cglue-bindgen failed (rc=%s): %s" % (rc, out[-800:])
    return outp, None


# ------------------------------------------------------------------------------------------------
# wrapper discovery (by NAME and self type only - never by looking at what the body calls)
# ------------------------------------------------------------------------------------------------

def parse_wrappers(header):
    ws = []
    for m in re.finditer(r"static inline ([^\n{;]+?)\b(\w+)\(([^)]*)\)\s*\{", header):
        ret, name, params = m.group(1).strip(), m.group(2), m.group(3)
        ps = [p.strip() for p in params.split(",")] if params.strip() else []
        if not ps or not ps[0].endswith("self"):
            continue
        ws.append({"name": name, "ret": ret, "self": ps[0], "nparams": len(ps) - 1,
                   "ptypes": [re.sub(r"\s+", " ", re.sub(r"\b\w+$", "", p)).replace(" *", "*").strip() for p in ps[1:]]})
    return ws


def find_wrapper(ws, ty, trait, method, model, all_types, sig=None):
    """Most specific emitted function whose name is PREFIX-tokens + method and whose tokens, self type and
    parameter list fit `ty` and the entry's declared signature (`sig` = (receiver kind, [C arg types], C return type))."""
    best = None
    names = set([t["name"].lower() for t in model["traits"]] + [g[0].lower() for g in model["groups"]])
    for w in ws:
        toks = w["name"].split("_")
        if toks[-1] != method:
            continue
        ok = True
        for ti_, tk in enumerate(toks[:-1]):
            # the configured function prefix is the FIRST token only: a later equal token is a type name (a group may be
            # called like the prefix)
            if ti_ == 0 and tk == (model.get("prefix") or "\0"):
                continue
            if tk in ("box", "mut", "ref"):
                ok &= tk == ty["inner"].lower()
            elif tk == "arc":
                ok &= ty["ctx"] == "Arc"
            elif tk in names:
                ok &= tk == trait.lower() or (ty["kind"] == "grp" and tk == ty["name"].lower())
            else:
                ok = False
        s = w["self"]
        if "void" in s.split("*")[0] and "*" in s:
            pass
        else:
            ok &= ("struct %s self" % ty["struct"]) == s or ("struct %s *self" % ty["struct"]) in s
        if ok and sig is not None:
            recv, atys, rty = sig
            want = [a.replace(" *", "*").strip() for a in atys]
            ok &= w["ptypes"] == want
            ok &= re.sub(r"\s+", " ", w["ret"]).replace(" *", "*").strip() == rty.replace(" *", "*").strip()
            if recv == "ref":
                ok &= s.startswith("const ")
            elif recv == "mut":
                ok &= not s.startswith("const ") and "*" in s
            else:
                ok &= "*" not in s
        if ok and (best is None or len(toks) > len(best["name"].split("_"))):
            best = w
    return best


# ------------------------------------------------------------------------------------------------
# harness generation
# ------------------------------------------------------------------------------------------------
HARNESS_PRELUDE = r'''
#ifdef REPLAY
#include <stdio.h>
#include <stdlib.h>
#include <string.h>
static unsigned long long nd_val(const char *n) { const char *v = getenv(n); return v ? strtoull(v, 0, 0) : 0; }
#define ND(type, name) type name = (type) nd_val(#name)
static unsigned long long nd_ptr(const char *n) { unsigned long long v = nd_val(n), h = 0x10000; if (v) return v; while (*n) h = h * 33 + (unsigned char) *n++; return h | 0x1000; }
#define NDPTR(type, name) type name = (type) (uintptr_t) nd_ptr(#name)
#define CHECK(c, msg) do { if (!(c)) { fprintf(stderr, "FAILED: %s\n", msg); exit(1); } } while (0)
#define ASSUME(c) do { if (!(c)) { fprintf(stderr, "assumption violated\n"); exit(3); } } while (0)
#else
unsigned long long nondet_ull(void);
#define ND(type, name) type name = (type) nondet_ull()
#define NDPTR(type, name) type name = (type) (uintptr_t) nondet_ull()
#define CHECK(c, msg) __CPROVER_assert(c, msg)
#define ASSUME(c) __CPROVER_assume(c)
#endif
static int ctx_live, ctx_live_during, box_drops, bad_release;
static const void *the_ctx, *the_inst;
/* the mock arc hands out a DISTINCT handle per clone (the ABI permits it): releases are counted per handle */
static char clone_cells[8]; static int n_clones; static int orig_releases; static int clone_releases[8];
static const void *m_clone(const void *p) {
    if (p != the_ctx) bad_release = 1;
    ctx_live++;
    if (n_clones >= 8) { bad_release = 1; return p; }
    return &clone_cells[n_clones++];
}
static void m_cdrop(const void *p) {
    ctx_live--;
    if (p == the_ctx) { orig_releases++; return; }
    for (int i = 0; i < 8; i++) if (p == &clone_cells[i]) { if (i >= n_clones) bad_release = 1; clone_releases[i]++; return; }
    bad_release = 1;
}
static int handles_balanced(int expect_orig) {
    if (orig_releases != expect_orig) return 0;
    for (int i = 0; i < 8; i++) if (clone_releases[i] != (i < n_clones ? 1 : 0)) return 0;
    return 1;
}
static int ctx_live_at_bdrop = -1;
static void m_bdrop(void *p) { if (p != the_inst) bad_release = 1; box_drops++; ctx_live_at_bdrop = ctx_live; }
static int called[64];
static const void *seen_cont;
'''


def c_eq(kind, a, b):
    if kind == "struct":
        return "(%s.a == %s.a && %s.b == %s.b)" % (a, b, a, b)
    if kind == "slice":
        return "(%s.data == %s.data && %s.len == %s.len)" % (a, b, a, b)
    if kind == "cb":
        return "(%s.context == %s.context && %s.func == %s.func)" % (a, b, a, b)
    return "(%s == %s)" % (a, b)


def nd_decl(tykey, name):
    cty, kind = ARG_TYPES[tykey] if tykey in ARG_TYPES else (RET_TYPES[tykey], "scalar" if tykey not in ("struct", "ptr", "vptr") else tykey)
    if kind == "struct":
        return "struct Pt %s; { ND(uint8_t, %s_a); ND(uint32_t, %s_b); %s.a = %s_a; %s.b = %s_b; }" % (name, name, name, name, name, name, name)
    if kind == "slice":
        return "struct CSliceRef_u8 %s; { NDPTR(const uint8_t *, %s_d); ND(uintptr_t, %s_l); %s.data = %s_d; %s.len = %s_l; }" % (
            name, name, name, name, name, name, name)
    if kind == "cb":
        return "struct Callback_c_void__Pt %s; { NDPTR(void *, %s_c); %s.context = %s_c; %s.func = 0; }" % (name, name, name, name, name)
    if tykey == "vptr":
        return "NDPTR(void *, %s);" % name
    if kind == "ptr":
        return "NDPTR(const uint32_t *, %s);" % name
    if kind == "pp":
        # pointer to pointer: a valid cell holding an arbitrary pointer, so that a wrapper which forwards `*p` instead of `p`
        # hands over a different (observable) value instead of dereferencing garbage
        inner = cty[:-1].strip()
        return "static %s %s_cell; NDPTR(%s, %s_v); %s_cell = %s_v; %s%s = &%s_cell;" % (inner, name, inner, name, name, name, cty, name, name)
    return "ND(%s, %s);" % (cty, name)


def gen_harness(model, types, header_path, ws):
    traits = {t["name"]: t for t in model["traits"]}
    o = ['#include "%s"\n' % header_path, HARNESS_PRELUDE]
    checks = []     # (function name, description)
    missing = []
    slot = 0
    tests = []
    for ti, ty in enumerate(types):
        cont = "struct " + ty["cont"]
        # mock vtable entries
        slots = {}
        for (field, t, vt) in ty["vtbls"]:
            for m in traits[t]["methods"]:
                sid = slot
                slot += 1
                slots[(field, m["name"])] = sid
                fname = "mock_%d_%s_%s" % (ti, field, m["name"])
                recv = {"ref": "const %s *c" % cont, "mut": "%s *c" % cont, "own": "%s c" % cont}[m["recv"]]
                params = "".join(", %s p%d" % (ARG_TYPES[a][0], i) for i, a in enumerate(m["args"]))
                ret = RET_TYPES[m["ret"]]
                for i, a in enumerate(m["args"]):
                    o.append("static %s seen_%d_a%d;\n" % (ARG_TYPES[a][0], sid, i))
                if m["ret"] != "void":
                    o.append("static %s ret_%d;\n" % (ret, sid))
                if m["recv"] == "own":
                    o.append("static %s seen_byval_%d;\n" % (cont, sid))
                body = "    called[%d]++;\n" % sid
                if m["recv"] == "own":
                    body += "    seen_byval_%d = c; ctx_live_during = ctx_live;\n" % sid
                    # the callee owns what it received by value and releases it
                    if ty["ctx"] == "Arc":
                        body += "    c.context.drop_fn(c.context.instance);\n"
                    if ty["inner"] == "Box":
                        body += "    c.instance.drop_fn(c.instance.instance);\n"
                else:
                    body += "    seen_cont = c;\n"
                for i, a in enumerate(m["args"]):
                    body += "    seen_%d_a%d = p%d;\n" % (sid, i, i)
                if m["ret"] != "void":
                    body += "    return ret_%d;\n" % sid
                o.append("static %s %s(%s%s) {\n%s}\n" % (ret, fname, recv, params, body))
        # object construction helper
        mk = "static void mk_%d(struct %s *o) {\n" % (ti, ty["struct"])
        for (field, t, vt) in ty["vtbls"]:
            o.append("static struct %s vt_%d_%s = { %s };\n" % (vt, ti, field, ", ".join("mock_%d_%s_%s" % (ti, field, m["name"]) for m in traits[t]["methods"])))
            mk += "    o->%s = &vt_%d_%s;\n" % (field, ti, field)
        mk += "    NDPTR(void *, inst_%d); ASSUME(inst_%d != 0); the_inst = inst_%d;\n" % (ti, ti, ti)
        if ty["inner"] == "Box":
            mk += "    o->container.instance.instance = inst_%d; o->container.instance.drop_fn = m_bdrop;\n" % ti
        else:
            mk += "    o->container.instance = inst_%d;\n" % ti
        if ty["ctx"] == "Arc":
            # a concrete, distinct address for the object's own context handle (a symbolic pointer could alias the
            # cells the mock arc hands out for clones)
            mk += "    static char orig_ctx_cell_%d; const void *ctxp_%d = &orig_ctx_cell_%d; the_ctx = ctxp_%d;\n" % (ti, ti, ti, ti)
            mk += "    o->container.context.instance = ctxp_%d; o->container.context.clone_fn = m_clone; o->container.context.drop_fn = m_cdrop;\n" % ti
        mk += "    ctx_live = %d; ctx_live_during = -1; box_drops = 0; bad_release = 0; seen_cont = 0;\n" % (1 if ty["ctx"] == "Arc" else 0)
        mk += "    n_clones = 0; orig_releases = 0; for (int i = 0; i < 8; i++) clone_releases[i] = 0;\n"
        mk += "    for (int i = 0; i < 64; i++) called[i] = 0;\n}\n"
        o.append(mk)
        n_slots_total = None
        # one test per (type, method)
        for (field, t, vt) in ty["vtbls"]:
            for m in traits[t]["methods"]:
                sid = slots[(field, m["name"])]
                w = find_wrapper(ws, ty, t, m["name"], model, types,
                                 sig=(m["recv"], [ARG_TYPES[a][0] for a in m["args"]], RET_TYPES[m["ret"]]))
                desc = "%s %s.%s" % (ty["struct"][:40], t, m["name"])
                if w is None:
                    missing.append({"type": ty["struct"], "trait": t, "method": m["name"]})
                    continue
                tn = "test_%d_%s_%s" % (ti, field, m["name"])
                b = "static void %s(void) {\n    struct %s o; mk_%d(&o);\n" % (tn, ty["struct"], ti)
                for i, a in enumerate(m["args"]):
                    b += "    " + nd_decl(a, "x%d" % i) + "\n"
                if m["ret"] != "void":
                    b += "    " + nd_decl(m["ret"], "rv") + " ret_%d = rv;\n" % sid
                args = "".join(", x%d" % i for i in range(len(m["args"])))
                call = "%s(%s%s)" % (w["name"], "o" if m["recv"] == "own" else "&o", args)
                if m["ret"] != "void":
                    rk = m["ret"] if m["ret"] in ("struct",) else "scalar"
                    b += "    %s got = %s;\n    CHECK(%s, \"%s: returns the entry's result\");\n" % (RET_TYPES[m["ret"]], call, c_eq(rk, "got", "rv"), desc)
                else:
                    b += "    %s;\n" % call
                b += "    CHECK(called[%d] == 1, \"%s: invokes the entry of the same name exactly once\");\n" % (sid, desc)
                b += "    { int others = 0; for (int i = 0; i < 64; i++) if (i != %d) others += called[i]; CHECK(others == 0, \"%s: no other slot runs\"); }\n" % (sid, desc)
                if m["recv"] == "own":
                    if ty["inner"] == "Box":
                        b += "    CHECK(seen_byval_%d.instance.instance == o.container.instance.instance && seen_byval_%d.instance.drop_fn == o.container.instance.drop_fn, \"%s: container passed by value unchanged (instance)\");\n" % (sid, sid, desc)
                    if ty["ctx"] == "Arc":
                        b += "    CHECK(seen_byval_%d.context.instance == o.container.context.instance, \"%s: container passed by value unchanged (context)\");\n" % (sid, desc)
                        b += "    CHECK(ctx_live_during >= 2, \"%s: a context clone is alive during the consuming call\");\n" % desc
                        b += "    CHECK(ctx_live == 0, \"%s: context released exactly once\");\n" % desc
                        b += "    CHECK(handles_balanced(1), \"%s: every context handle (the object's and each clone's) released exactly once\");\n" % desc
                    if ty["inner"] == "Box":
                        b += "    CHECK(box_drops == 1, \"%s: instance released exactly once\");\n" % desc
                    b += "    CHECK(!bad_release, \"%s: releases use the object's own pointers\");\n" % desc
                else:
                    b += "    CHECK(seen_cont == &o.container, \"%s: passes the object's container\");\n" % desc
                    b += "    CHECK(ctx_live == %d && box_drops == 0, \"%s: borrowing wrapper releases nothing\");\n" % (1 if ty["ctx"] == "Arc" else 0, desc)
                for i, a in enumerate(m["args"]):
                    b += "    CHECK(%s, \"%s: argument %d unchanged and in order\");\n" % (c_eq(ARG_TYPES[a][1], "seen_%d_a%d" % (sid, i), "x%d" % i), desc, i)
                b += "}\n"
                o.append(b)
                tests.append((tn, desc, w["name"]))
        # drop helper
        w = find_wrapper(ws, ty, ty["vtbls"][0][1] if ty["kind"] == "obj" else ty["name"], "drop", model, types)
        desc = "%s drop helper" % ty["struct"][:40]
        if w is None:
            missing.append({"type": ty["struct"], "trait": "-", "method": "drop"})
        else:
            tn = "test_%d_drop" % ti
            b = "static void %s(void) {\n    struct %s o; mk_%d(&o);\n    %s(o);\n" % (tn, ty["struct"], ti, w["name"])
            b += "    { int c = 0; for (int i = 0; i < 64; i++) c += called[i]; CHECK(c == 0, \"%s: calls no vtable entry\"); }\n" % desc
            b += "    CHECK(box_drops == %d, \"%s: instance released exactly once\");\n" % (1 if ty["inner"] == "Box" else 0, desc)
            b += "    CHECK(ctx_live == 0, \"%s: context released exactly once\");\n" % desc
            if ty["inner"] == "Box" and ty["ctx"] == "Arc":
                # Rust drops the instance, then the context (the context typically keeps the code of the instance's release
                # function loaded): the C helper must release in the same order
                b += "    CHECK(ctx_live_at_bdrop >= 1, \"%s: the instance is released while the context is still held\");\n" % desc
            b += "    CHECK(!bad_release, \"%s: releases use the object's own pointers\");\n}\n" % desc
            o.append(b)
            tests.append((tn, desc, w["name"]))
            if ty["inner"] == "Box" or ty["ctx"] == "Arc":
                # null-guarded: a null drop function / instance must not be called through
                tn2 = "test_%d_drop_null" % ti
                b = "static void %s(void) {\n    struct %s o; mk_%d(&o);\n" % (tn2, ty["struct"], ti)
                if ty["inner"] == "Box":
                    b += "    o.container.instance.drop_fn = 0;\n"
                if ty["ctx"] == "Arc":
                    b += "    o.container.context.drop_fn = 0;\n"
                b += "    %s(o);\n    CHECK(box_drops == 0 && !bad_release, \"%s: null drop functions are not called\");\n}\n" % (w["name"], desc)
                o.append(b)
                tests.append((tn2, desc + " (null guard)", w["name"]))
    # ---- the C helper snippets every emitted header carries (the C side of callbacks and iterators): a buffer iterator
    # yields exactly the buffer's elements, in order, then reports the end (also for an EMPTY buffer); the static collect
    # callback stores at most `capacity` items in order and says "stop" when full; memcpy bounds are CBMC's own checks
    if model["id"] == "obj_box_arc" and "buf_iter_next" in open(header_path).read():
        o.append("""static void test_helper_buf_iter(void) {
    ND(uint32_t, hb_b0); ND(uint32_t, hb_b1); ND(uint32_t, hb_b2);
    uint32_t buf[3] = { hb_b0, hb_b1, hb_b2 };
    ND(size_t, hb_n); ASSUME(hb_n <= 3);
    struct BufferIterator it = { (const char *) buf, hb_n, 0, sizeof(uint32_t) };
    for (size_t k = 0; k < hb_n; k++) {
        uint32_t out = 0;
        CHECK(buf_iter_next(&it, &out) == 0, "buffer iterator: 0 for an item");
        CHECK(out == buf[k], "buffer iterator: items in order");
    }
    uint32_t out2 = 0x5A5A5A5A;
    CHECK(buf_iter_next(&it, &out2) != 0, "buffer iterator: ends after the last item (also when the buffer is empty)");
    CHECK(buf_iter_next(&it, &out2) != 0 && out2 == 0x5A5A5A5A, "buffer iterator: stays ended, writes nothing");
}
/* the BUF_ITER_SPEC macro over an untyped (byte) buffer: the element stride is the ELEMENT type's size */
typedef struct CIterator_hu32 { void *iter; int32_t (*func)(void *, uint32_t *out); } CIterator_hu32;
static void test_helper_buf_iter_macro(void) {
    ND(uint32_t, hm_b0); ND(uint32_t, hm_b1); ND(uint32_t, hm_b2);
    uint32_t typed[3] = { hm_b0, hm_b1, hm_b2 };
    const uint8_t *raw = (const uint8_t *) typed;
    BUF_ITER_SPEC(hu32, uint32_t, hit, raw, 3);
    /* (the stored function is the helper cast to the iterator's signature; it is invoked here under its own type -
       CBMC does not model a call through the differently typed pointer) */
    CHECK(hit.iter == (void *) &hit_base && hit.func != 0, "buffer iterator macro: state and function are set");
    CHECK(hit_base.sz_elem == sizeof(uint32_t), "buffer iterator macro: the stride is the element type's size");
    for (size_t k = 0; k < 3; k++) {
        uint32_t out = 0;
        CHECK(buf_iter_next(&hit_base, &out) == 0, "buffer iterator macro: 0 for an item");
        CHECK(out == typed[k], "buffer iterator macro: whole elements at the element type's stride");
    }
    uint32_t out3 = 0;
    CHECK(buf_iter_next(&hit_base, &out3) != 0, "buffer iterator macro: ends after the last item");
}
static void test_helper_collect_static(void) {
    uint32_t store[3] = { 0, 0, 0 };
    ND(size_t, hc_cap); ASSUME(hc_cap <= 3);
    ND(size_t, hc_m); ASSUME(hc_m <= 4);
    struct CollectBase cb = { (char *) store, hc_cap, 0 };
    size_t fed = 0;
    for (size_t k = 0; k < hc_m; k++) {
        uint32_t v = 100 + (uint32_t) k;
        bool more = cb_collect_static_base(&cb, sizeof(uint32_t), &v);
        fed++;
        CHECK(more == (cb.size < hc_cap), "static collect: continues exactly while there is room");
        /* a producer may offer again after "stop" (a second feed into the same collector): nothing is written then */
    }
    CHECK(cb.size == (fed < hc_cap ? fed : hc_cap), "static collect: stores min(offered, capacity) items");
    for (size_t k = 0; k < cb.size; k++) CHECK(store[k] == 100 + k, "static collect: items in order");
}
""")
        o.append("""static void test_helper_collect_dynamic(void) {
    /* the growing collector accepts every item (here: across its first growth at 64 items) and keeps them in order */
    struct CollectBase cb = { 0, 0, 0 };
    for (uint32_t k = 0; k < 66; k++) {
        uint32_t v = 1000 + k;
        bool more = cb_collect_dynamic_base(&cb, sizeof(uint32_t), &v);
        CHECK(more, "dynamic collect: never asks to stop while memory is available");
    }
    CHECK(cb.size == 66 && cb.capacity >= 66, "dynamic collect: holds every offered item");
    ND(size_t, hd_i); ASSUME(hd_i < 66);
    CHECK(((uint32_t *) cb.buf)[hd_i] == 1000 + hd_i, "dynamic collect: items in order");
    free(cb.buf);
}
""")
        tests.append(("test_helper_collect_dynamic", "helper cb_collect_dynamic_base", "cb_collect_dynamic_base"))
        tests.append(("test_helper_buf_iter", "helper buf_iter_next", "buf_iter_next"))
        tests.append(("test_helper_buf_iter_macro", "helper BUF_ITER_SPEC", "BUF_ITER_SPEC"))
        tests.append(("test_helper_collect_static", "helper cb_collect_static_base", "cb_collect_static_base"))
    o.append("int main(void) {\n    ND(unsigned, which);\n    switch (which) {\n")
    for i, (tn, desc, wn) in enumerate(tests):
        o.append("    case %d: %s(); break;\n" % (i, tn))
    o.append("    default: break;\n    }\n    return 0;\n}\n")
    return "".join(o), tests, missing


# ------------------------------------------------------------------------------------------------
# CBMC
# ------------------------------------------------------------------------------------------------

def run_cbmc(cpath, mdir):
    t0 = time.time()
    rc, out = sh(["cbmc", cpath, "--unwind", "70", "--unwinding-assertions", "--pointer-check", "--bounds-check",
                  "--no-malloc-may-fail", "--trace", "--object-bits", "12"], cwd=mdir, timeout=900)
    open(os.path.join(mdir, "cbmc.log"), "w").write(out)
    res = {"rc": rc, "secs": time.time() - t0, "props": 0, "failed": [], "out": out}
    m = re.search(r"\*\* (\d+) of (\d+) failed", out)
    if m:
        res["props"] = int(m.group(2))
    for fm in re.finditer(r"\[([^\]]+)\] line \d+ (.*?): FAILURE", out):
        res["failed"].append({"id": fm.group(1), "desc": fm.group(2)})
    res["ok"] = "VERIFICATION SUCCESSFUL" in out
    res["decided"] = ("VERIFICATION SUCCESSFUL" in out) or ("VERIFICATION FAILED" in out)
    return res


def trace_values(out, desc):
    """nondet inputs (ND/NDPTR variables) of the trace that violates `desc`."""
    i = out.find("Violated property:")
    blocks = out.split("Trace for ")
    vals = {}
    for b in blocks[1:]:
        if desc in b:
            for m in re.finditer(r"^\s+(\w+)=(-?\d+)(?:u|ul|ull|l)? ", b, re.M):
                vals[m.group(1)] = m.group(2)
            for m in re.finditer(r"^\s+(\w+)=\(\(?[^)]*\)\)?(\d+|NULL)", b, re.M):
                vals[m.group(1)] = "0" if m.group(2) == "NULL" else m.group(2)
            for m in re.finditer(r"^\s+(\w+)=(TRUE|FALSE) ", b, re.M):
                vals[m.group(1)] = "1" if m.group(2) == "TRUE" else "0"
            break
    return vals


def gcc_replay(cpath, mdir, vals):
    exe = os.path.join(mdir, "replay.bin")
    rc, out = sh(["gcc", "-DREPLAY", "-O0", "-w", "-o", exe, cpath], cwd=mdir)
    if rc != 0:
        return False, "gcc failed: " + out[-500:]
    env = {("%s" % k): v for k, v in vals.items()}
    rc, out = sh([exe], cwd=mdir, env=env, timeout=60)
    return (rc == 1 and "FAILED:" in out), out[-400:]


def helper_checks(which="helpers"):
    """The C helper snippets alone (used by C15: they are the C side of callbacks and iterators). Returns
    {"failed": [...], "props": n, "secs": s, "error": str|None, "harness": path}."""
    os.makedirs(WORK, exist_ok=True)
    try:
        binp = build_tool()
    except Exception as e:
        return {"failed": [], "props": 0, "secs": 0.0, "error": str(e), "harness": None}
    model = [m for m in models("quick", 0) if m["id"] == "obj_box_arc"][0]
    mdir = os.path.join(WORK, "helpers")
    raw, types = synth(model)
    outp, err = run_tool(binp, raw, model, mdir)
    if err:
        return {"failed": [], "props": 0, "secs": 0.0, "error": err, "harness": None}
    ws = parse_wrappers(open(outp).read())
    hsrc, tests, missing = gen_harness(model, types, outp, ws)
    cpath = os.path.join(mdir, "harness.c")
    open(cpath, "w").write(hsrc)
    res = run_cbmc(cpath, mdir)
    if which == "helpers":
        helper = [f for f in res["failed"] if f["desc"].startswith(("buffer iterator", "static collect", "dynamic collect")) or "test_helper" in f["id"] or "memcpy" in f["id"] or "buf_iter_next" in f["id"]
                  or "cb_collect" in f["id"]]
    else:   # "drop": the *_drop helpers and the ctx_arc_clone / ctx_arc_drop / cont_box_drop snippets they use
        helper = [f for f in res["failed"] if "drop helper" in f["desc"]]
    replayed = []
    for f in helper:
        vals = trace_values(res["out"], f["desc"])
        ok, out = gcc_replay(cpath, mdir, vals)
        replayed.append({"check": f, "inputs": vals, "gcc_replay_fails": ok, "gcc_output": out})
    return {"failed": replayed, "props": res["props"], "secs": res["secs"], "error": None if res["decided"] else res["out"][-300:],
            "harness": cpath, "has_helper_tests": any(t[0].startswith("test_helper") for t in tests)}


def main(prop="C17", tier="quick"):
    import vf
    t0 = time.time()
    seed = int(os.environ.get("VERIF_SEED", "0") or 0)
    os.makedirs(WORK, exist_ok=True)
    try:
        binp = build_tool()
    except Exception as e:
        print("[C17] %s" % e)
        return 3
    total_props = 0
    wrappers_checked = 0
    violations, unreplayed, inconclusive = [], [], []
    samples = []
    solver_s = 0.0
    ms = models(tier, seed)
    for model in ms:
        mdir = os.path.join(WORK, model["id"])
        raw, types = synth(model)
        outp, err = run_tool(binp, raw, model, mdir)
        if err:
            inconclusive.append((model["id"], err))
            continue
        header = open(outp).read()
        # the emitted header must be C on its own: a wrapper that calls an undeclared helper, or passes an argument of an
        # incompatible type to its vtable entry, is not a callable wrapper for that entry (gcc is the replay oracle here; the
        # three diagnostics promoted to errors are constraint violations of the C standard that gcc 12 only warns about)
        grc, gout = sh(["gcc", "-std=c11", "-fsyntax-only", "-Werror=implicit-function-declaration",
                        "-Werror=incompatible-pointer-types", "-Werror=int-conversion", "-x", "c", outp], cwd=mdir, timeout=120)
        if grc != 0:
            rp = os.path.join(VERIF, "work", "replay", "C17-%s-header-not-c.json" % model["id"])
            os.makedirs(os.path.dirname(rp), exist_ok=True)
            errs = [l for l in gout.splitlines() if "error" in l][:12]
            json.dump({"engine": "c17", "property": prop, "model": model["id"], "header": outp,
                       "replay_cmd": "gcc -std=c11 -fsyntax-only -Werror=implicit-function-declaration "
                                     "-Werror=incompatible-pointer-types -Werror=int-conversion -x c " + outp,
                       "errors": errs}, open(rp, "w"), indent=1)
            violations.append(("emitted wrappers of model %s are not valid C (not callable): %s" % (model["id"], "; ".join(errs[:2])[:300]), rp))
            samples.append({"model": model["id"], "verdict": "see violations", "header_errors": errs[:4]})
            continue
        ws = parse_wrappers(header)
        hsrc, tests, missing = gen_harness(model, types, outp, ws)
        cpath = os.path.join(mdir, "harness.c")
        open(cpath, "w").write(hsrc)
        res = run_cbmc(cpath, mdir)
        solver_s += res["secs"]
        total_props += res["props"]
        wrappers_checked += len(tests)
        samples.append({"model": model["id"], "types": [t["struct"][:60] for t in types], "wrappers": [t[2] for t in tests][:12],
                        "cbmc_properties": res["props"], "verdict": "holds" if res["ok"] and not missing else "see violations",
                        "missing_wrappers": missing})
        for ms_ in missing:
            rp = os.path.join(VERIF, "work", "replay", "C17-%s-missing-%s-%s.json" % (model["id"], ms_["trait"], ms_["method"]))
            os.makedirs(os.path.dirname(rp), exist_ok=True)
            json.dump({"engine": "c17", "property": prop, "model": model, "missing": ms_, "header": outp}, open(rp, "w"), indent=1)
            violations.append(("no callable wrapper for %s.%s of %s" % (ms_["trait"], ms_["method"], ms_["type"][:50]), rp))
        if not res["decided"]:
            inconclusive.append((model["id"], "cbmc did not decide: " + res["out"][-400:]))
            continue
        seen_desc = set()
        for f in res["failed"]:
            if f["desc"] in seen_desc:
                continue
            seen_desc.add(f["desc"])
            if "unwinding assertion" in f["desc"]:
                inconclusive.append((model["id"], f["desc"]))
                continue
            vals = trace_values(res["out"], f["desc"])
            ok, detail = gcc_replay(cpath, mdir, vals)
            rp = os.path.join(VERIF, "work", "replay", "C17-%s-%s.json" % (model["id"], hashlib.sha1(f["desc"].encode()).hexdigest()[:10]))
            os.makedirs(os.path.dirname(rp), exist_ok=True)
            json.dump({"engine": "c17", "property": prop, "model": model["id"], "failed": f, "values": vals, "harness": cpath,
                       "header": outp, "replayed_with_gcc": ok, "detail": detail}, open(rp, "w"), indent=1)
            (violations if ok else unreplayed).append((f["desc"], rp))
    wall = time.time() - t0
    coverage = {
        "programs": len(ms),
        "disagreements_checked": wrappers_checked,
        "samples": samples,
        "explanation": "programs = API models turned into cbindgen-shaped headers and post-processed by the real cglue-bindgen "
                       "binary; disagreements_checked = emitted wrappers (incl. drop helpers and their null-guard variants) whose "
                       "forwarding contract CBMC decided for all argument values and object contents",
        "cbmc_properties": total_props,
        "solver_time_s": round(solver_s, 2),
        "bounds": "API models: %s; argument shapes {scalar, struct, slice, callback, pointer} 0-3 per method; receivers "
                  "ref/mut/consuming; containers Box/Mut/Ref; contexts none/CArc; a method-name clash between traits; a function "
                  "prefix; all argument values and object pointers symbolic" % ", ".join(m["id"] for m in ms),
        "outside": "C++ member-function wrappers; wrappers returning the container type; header shapes the synthesizer does not "
                   "produce; more than 2 groups / 3 traits per header",
        "repo": vf.repo_state(),
    }
    assumptions = [
        "the raw header synthesizer reproduces cbindgen's output shape (validated by the completeness assertion: every vtable "
        "entry must get a callable wrapper, and by goto-cc accepting the processed header)",
        "wrappers are associated with (type, method) by NAME tokens and self parameter type only, never by their body",
        "CBMC 6.11 with --pointer-check --bounds-check --unwinding-assertions; mock callee releases what it receives by value",
    ]
    vf.write_evidence(prop, tier, "translation_validation", coverage, assumptions, wall, len(violations))
    print("[C17] models=%d wrappers checked=%d cbmc properties=%d solver=%.1fs wall=%.1fs" % (len(ms), wrappers_checked, total_props, solver_s, wall))
    if violations:
        for d, rp in violations:
            print("VIOLATION property=%s replay=%s" % (prop, rp))
            print("  " + d)
        return 1
    if unreplayed:
        for d, rp in unreplayed:
            print("[C17] counterexample did not replay with gcc (not reported as violation): %s -> %s" % (d, rp))
        return 2
    if inconclusive:
        for mid, why in inconclusive:
            print("[C17] INCONCLUSIVE %s: %s" % (mid, why[:600]))
        return 3
    return 0


if __name__ == "__main__":
    sys.exit(main(tier=(sys.argv[1] if len(sys.argv) > 1 else "quick")))
