#!/bin/bash
# lab_all.sh <list of seeded ids...>: try each seeded mutant against its property's check in the lab ($LAB, default /tmp/lab)
for id in "$@"; do
  P=${id%%-*}
  echo "=== $id"
  /verif/tools/lab.sh try $P /verif/seeded/$id/patch.diff quick 2>&1 | tail -14
done
