#!/bin/bash
# Mutant lab: a private copy of /verif wired to a private worktree of /repo, so that seeded changes
# can be tried without disturbing /repo or the main /verif build caches.
#   lab.sh init            create/refresh /tmp/lab/{repo,verif}
#   lab.sh try <PROP> <patch.diff> [tier]   apply patch in the lab repo, run the lab check, revert
LAB=${LAB:-/tmp/lab}
case "$1" in
 init)
  mkdir -p $LAB
  if [ ! -d $LAB/repo ]; then git -C /repo worktree add -q --detach $LAB/repo HEAD; else git -C $LAB/repo checkout -q --detach $(git -C /repo rev-parse HEAD); git -C $LAB/repo checkout -q -- .; fi
  mkdir -p $LAB/verif
  rsync -a --delete --exclude work --exclude .git --exclude 'harness/*/Cargo.lock' --exclude evidence /verif/ $LAB/verif/
  mkdir -p $LAB/verif/work $LAB/verif/evidence
  # rsync -a keeps source mtimes, which can be OLDER than build artifacts left in $LAB/verif/work from an earlier state:
  # cargo would then reuse a stale nd / harness rlib (seen: release and Miri replays failing to compile). Touch the sources.
  find $LAB/verif/harness -name '*.rs' -exec touch {} +
  grep -rl '/repo/' $LAB/verif/harness/*/Cargo.toml | xargs -r sed -i "s|/repo/|$LAB/repo/|g"
  echo "lab ready at $LAB (repo $(git -C $LAB/repo rev-parse --short HEAD))"
  ;;
 try)
  P=$2; PATCH=$3; TIER=${4:-quick}
  git -C $LAB/repo checkout -q -- .
  git -C $LAB/repo apply $PATCH || { echo "patch does not apply"; exit 8; }
  cd $LAB/verif; VERIF_REPO=$LAB/repo ./check $P --tier $TIER > $LAB/try_$P.out 2>&1; rc=$?
  git -C $LAB/repo checkout -q -- .
  echo "check_rc=$rc"; grep -E "VIOLATION|INCONCLUSIVE|UNREPLAYED|KNOWN-FINDING|^\[$P\] tier|  harness" $LAB/try_$P.out | head -12
  exit $rc
  ;;
esac
