#!/bin/bash
# adopt.sh <PROP> <k> [features]: confirm /tmp/wt-<PROP>-out/<k> in /tmp/wt-<PROP>; when confirmed copy it to seeded/<PROP>-<next free number>
P=$1; K=$2; FEAT=$3
out=$(/verif/tools/confirm_mutant.sh /tmp/wt-$P /tmp/wt-$P-out/$K "$FEAT" 2>&1)
echo "$out" | tail -2
echo "$out" | grep -q "^CONFIRMED" || exit 1
n=$(ls /verif/seeded | grep "^$P-" | sed "s/$P-//" | sort -n | tail -1); n=$((n+1))
mkdir -p /verif/seeded/$P-$n; cp /tmp/wt-$P-out/$K/patch.diff /tmp/wt-$P-out/$K/demo.rs /tmp/wt-$P-out/$K/notes.md /verif/seeded/$P-$n/
[ -n "$FEAT" ] && echo "$FEAT" > /verif/seeded/$P-$n/features.txt
echo "adopted as $P-$n"
