#!/bin/bash
# confirm_sh.sh <worktree> <mutant-dir>: same as confirm_mutant.sh for demos that are shell scripts (demo.sh)
WT=$1; M=$2
cd $WT || exit 9
git checkout -q -- . ; rm -rf cglue/tests
sh $M/demo.sh >/tmp/demo_c.out 2>&1; c=$?
git checkout -q -- . ; rm -rf cglue/tests
git apply $M/patch.diff || { echo "patch does not apply"; exit 8; }
cargo test --workspace --no-fail-fast --offline >/tmp/suite.out 2>&1; a=$?
sh $M/demo.sh >/tmp/demo_b.out 2>&1; b=$?
git checkout -q -- . ; rm -rf cglue/tests
echo "suite_with_patch_rc=$a demo_with_patch_rc=$b demo_without_patch_rc=$c"
[ $a -eq 0 ] && [ $b -ne 0 ] && [ $c -eq 0 ] && echo CONFIRMED || echo NOT-CONFIRMED
