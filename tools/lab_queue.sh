#!/bin/bash
# lab_queue.sh <lab-dir> <logname> <ids...>: wait until no batch runs in that lab, refresh it, run the ids (one batch per lab!)
L=$1; LOG=$2; shift 2
while pgrep -f "lab_all.sh" -a | grep -q "cwd-marker-$L" || [ -n "$(for p in $(pgrep -f lab_all.sh); do readlink /proc/$p/cwd; done | grep -x "$L")" ]; do sleep 20; done
LAB=$L /verif/tools/lab.sh init > /dev/null
cp /verif/tools/lab_all.sh $L/
cd $L && LAB=$L bash ./lab_all.sh "$@" > $L/$LOG 2>&1
