#!/bin/bash
# confirm_mutant.sh <worktree> <mutant-dir> <features>
# Confirms in the scratch worktree: (a) suite passes with patch, (b) demo fails with patch, (c) demo passes without.
WT=$1; M=$2; FEAT=$3
cd $WT || exit 9
git checkout -q -- . ; rm -rf cglue/tests
FE=""; [ -n "$FEAT" ] && FE="--features $FEAT"
# a demo with a main() and no #[test] is an example program; DEMO_FLAGS (e.g. --release) are passed to cargo
rundemo() {
  if grep -q "fn main()" $M/demo.rs && ! grep -q "#\[test\]" $M/demo.rs; then
    mkdir -p cglue/examples; cp $M/demo.rs cglue/examples/vdemo.rs; RUST_BACKTRACE=0 cargo run -p cglue --example vdemo --offline $FE $DEMO_FLAGS >/tmp/demo.out 2>&1; rc=$?; rm -f cglue/examples/vdemo.rs; git checkout -q -- cglue/examples 2>/dev/null; return $rc
  fi
  mkdir -p cglue/tests; cp $M/demo.rs cglue/tests/vdemo.rs; RUST_BACKTRACE=0 cargo test -p cglue --test vdemo --offline $FE $DEMO_FLAGS >/tmp/demo.out 2>&1; rc=$?; rm -rf cglue/tests; return $rc; }
rundemo; c=$?
git apply $M/patch.diff || { echo "patch does not apply"; exit 8; }
cargo test --workspace --no-fail-fast --offline >/tmp/suite.out 2>&1; a=$?
if [ -n "$FEAT" ]; then cargo test -p cglue $FE --offline -- --skip use_sink >>/tmp/suite.out 2>&1; a2=$?; else a2=0; fi
rundemo; b=$?
git checkout -q -- .
echo "suite_with_patch_rc=$a/$a2 demo_with_patch_rc=$b demo_without_patch_rc=$c"
[ $a -eq 0 ] && [ $a2 -eq 0 ] && [ $b -ne 0 ] && [ $c -eq 0 ] && echo CONFIRMED || echo NOT-CONFIRMED
