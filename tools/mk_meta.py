#!/usr/bin/env python3
"""Builds seeded/<id>/meta.json and seeded/RESULTS.md from the lab logs (latest result per mutant wins)."""
import glob, json, os, re, sys
props = {json.loads(l)["id"]: json.loads(l) for l in open("/verif/properties.jsonl")}
# the lab logs are copied into the repository (seeded/lablogs) so that the table can be regenerated after the labs are gone;
# batches are numbered in the order they were started (allNN.log): a later batch supersedes an earlier one
os.makedirs("/verif/seeded/lablogs", exist_ok=True)
for lg in glob.glob("/tmp/lab*/all*.log"):
    dst = "/verif/seeded/lablogs/%s-%s" % (os.path.basename(os.path.dirname(lg)), os.path.basename(lg))
    txt = open(lg).read()
    if not os.path.exists(dst) or open(dst).read() != txt:
        open(dst, "w").write(txt)
def _num(pth):
    m = re.search(r"all(\d+)\.log$", pth)
    return int(m.group(1)) if m else 0
# (lab3-all8 / lab3-all11 overlapped in one worktree and reverted each other's patches: discarded)
logs = sorted([l for l in glob.glob("/verif/seeded/lablogs/*.log") if os.path.basename(l) not in ("lab3-all8.log", "lab3-all11.log")], key=_num)
res = {}
for lg in logs:
    txt = open(lg).read()
    for blk in re.split(r"^=== ", txt, flags=re.M)[1:]:
        mid = blk.split("\n", 1)[0].strip()
        m = re.search(r"check_rc=(\d+)", blk)
        if not m:
            continue
        rc = int(m.group(1))
        harn = re.findall(r"^\s+harness (\S+): (.*)$", blk, re.M)
        vio = re.findall(r"^VIOLATION property=\S+ replay=(\S+)", blk, re.M)
        detail = [l.strip() for l in blk.splitlines() if l.startswith("  ") and "harness" not in l][:3]
        res[mid] = {"rc": rc, "harnesses": harn[:4], "violations": len(vio), "detail": detail, "log": lg,
                    "inconclusive": re.findall(r"INCONCLUSIVE (\S+)", blk)[:4]}
extra = json.load(open("/verif/seeded/notes.json")) if os.path.exists("/verif/seeded/notes.json") else {}
rows = []
for d in sorted(glob.glob("/verif/seeded/C*-*")):
    mid = os.path.basename(d)
    pid = mid.split("-")[0]
    notes = open(os.path.join(d, "notes.md")).read() if os.path.exists(os.path.join(d, "notes.md")) else ""
    r = res.get(mid)
    verdict = "not run yet"
    if r:
        verdict = {0: "MISSED (check exits 0)", 1: "CAUGHT (VIOLATION, replayed)", 2: "counterexample found but did not replay (exit 2)",
                   3: "INCONCLUSIVE (exit 3)"}.get(r["rc"], "rc=%d" % r["rc"])
    if mid in extra and extra[mid].get("verdict"):
        verdict = extra[mid]["verdict"]
    meta = {
        "id": mid,
        "breaks_property": pid,
        "property_title": props[pid]["title"],
        "origin": "written by an independent sub-agent that saw only the property text and a scratch worktree of /repo",
        "needs_to_manifest": (extra.get(mid, {}).get("needs") or re.sub(r"\s+", " ", notes)[:600]),
        "confirmed_by_me": "tools/confirm_mutant.sh in the agent's scratch worktree: (a) full existing suite passes with the patch, "
                           "(b) demo fails with the patch, (c) demo passes without it" + extra.get(mid, {}).get("confirm_note", ""),
        "check_run": "tools/lab.sh try %s seeded/%s/patch.diff (private copy of /verif wired to a private worktree of /repo)" % (pid, mid),
        "check_result": verdict,
        "check_exit_code": r["rc"] if r else None,
        "catching_harnesses": [{"harness": h, "failed": f[:200]} for h, f in (r["harnesses"] if r else [])] or (r["detail"] if r else []),
        "inconclusive_harnesses": r["inconclusive"] if r else [],
    }
    json.dump(meta, open(os.path.join(d, "meta.json"), "w"), indent=1)
    rows.append((mid, verdict, ", ".join(h for h, _ in (r["harnesses"] if r else [])) or "; ".join((r or {}).get("detail", []))[:120]))
with open("/verif/seeded/RESULTS.md", "w") as f:
    f.write("| seeded change | result of `./check <property>` with the change applied | catching harness / detail |\n|---|---|---|\n")
    for row in rows:
        f.write("| %s | %s | %s |\n" % row)
print(open("/verif/seeded/RESULTS.md").read())
