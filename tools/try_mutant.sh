#!/bin/bash
# try_mutant.sh <PROP> <patch> [tier]: apply patch to /repo, run the check, revert. Prints rc and VIOLATION lines.
P=$1; PATCH=$2; TIER=${3:-quick}
cd /repo && git status --porcelain | grep -q . && { echo "/repo dirty"; exit 9; }
git -C /repo apply $PATCH || { echo "patch does not apply"; exit 8; }
cd /verif; ./check $P --tier $TIER > /tmp/try_$P.out 2>&1; rc=$?
git -C /repo checkout -- .
echo "check_rc=$rc"; grep -E "VIOLATION|INCONCLUSIVE|UNREPLAYED|KNOWN-FINDING|^\[$P\] tier" /tmp/try_$P.out | head -8
exit $rc
