#!/usr/bin/env python3
"""Summary table of DESIGN.md section 10 from seeded/RESULTS.md."""
import re, collections
rows = [l.split("|") for l in open("/verif/seeded/RESULTS.md") if l.startswith("| C")]
per = collections.OrderedDict()
for r in rows:
    mid, verdict = r[1].strip(), r[2].strip()
    p = mid.split("-")[0]
    d = per.setdefault(p, {"n": 0, "caught": 0, "nd": []})
    d["n"] += 1
    if verdict.startswith("CAUGHT") or " - CAUGHT" in verdict and False:
        d["caught"] += 1
    else:
        short = verdict.split(" - ")[0]
        short = re.sub(r" for the full quick check.*", "", short)
        d["nd"].append("%s: %s" % (mid, short))
print("| property | seeded changes | caught (VIOLATION, replayed against the changed code) | not decided |\n|---|---|---|---|")
tn = tc = 0
for p in sorted(per):
    d = per[p]; tn += d["n"]; tc += d["caught"]
    print("| %s | %d | %d | %s |" % (p, d["n"], d["caught"], "; ".join(sorted(d["nd"])) or "-"))
print("| **total** | **%d** | **%d** | |" % (tn, tc))
