#!/bin/bash
# batch.sh <PROP> [features]: confirm the 3 mutants of /tmp/wt-<PROP>, copy to /verif/seeded, try them in the lab
P=$1; FEAT=$2
for k in 1 2 3; do
  M=/tmp/wt-$P/mutants/$k
  [ -d $M ] || continue
  echo "=== $P-$k"
  /verif/tools/confirm_mutant.sh /tmp/wt-$P $M "$FEAT" 2>&1 | tail -2
  d=/verif/seeded/$P-$k; mkdir -p $d; cp $M/patch.diff $M/demo.rs $M/notes.md $d/ 2>/dev/null; [ -f $M/demo.sh ] && cp $M/demo.sh $d/
done
