#!/bin/bash
# batch.sh <PROP> [features] [offset]: confirm the mutants of /tmp/wt-<PROP>/mutants/{1,2,3}, copy them to
# /verif/seeded/<PROP>-<k+offset>
P=$1; FEAT=$2; OFF=${3:-0}
for k in 1 2 3; do
  M=/tmp/wt-$P/mutants/$k
  [ -d $M ] || continue
  n=$((k+OFF))
  echo "=== $P-$n"
  if [ -f $M/demo.rs ]; then /verif/tools/confirm_mutant.sh /tmp/wt-$P $M "$FEAT" 2>&1 | tail -2; else /verif/tools/confirm_sh.sh /tmp/wt-$P $M 2>&1 | tail -2; fi
  d=/verif/seeded/$P-$n; mkdir -p $d; cp $M/patch.diff $M/notes.md $d/ 2>/dev/null; cp $M/demo.rs $M/demo.sh $d/ 2>/dev/null
  # auxiliary files of a demonstration (helper scripts, raw headers, demo workspaces without build output)
  for f in $M/*; do b=$(basename $f); case $b in patch.diff|notes.md|demo.rs|demo.sh|target) ;; *) if [ -d $f ]; then rsync -a --exclude target --exclude Cargo.lock $f $d/; else cp $f $d/; fi;; esac; done
done
